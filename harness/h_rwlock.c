/* C33 harness (T-sched): the real parsec_atomic_rwlock_{rdlock,rdunlock,wrlock,wrunlock}
 * of parsec/class/parsec_rwlock.c (the implementation selected by PARSEC_RWLOCK_IMPL in
 * parsec_rwlock.h), every model thread in its own coroutine, interleaved by the schedule
 * of the case.  parsec_rwlock.c is included after interpose.h so that each
 * parsec_atomic_* read-modify-write is a scheduling point.  Two more scheduling points
 * are obtained by macro, without touching /repo:
 *   - the wait loops call nanosleep() once they have iterated 1000 times: nanosleep is
 *     redefined to cos_spin(), so the first visit of a loop performs its 1002 identical
 *     reads inside the segment of the preceding atomic and every later visit is one
 *     volatile read per step (a stutter step of the model while the condition fails);
 *   - parsec_atomic_fetch_and_int32 (used only by wrunlock) also yields AFTER the
 *     operation, which separates the clearing of the writer bits in rin from the plain
 *     "L->wout = L->wout+1" exactly as the model does (PWx / PWy).
 *
 * case:  a b | prog0 prog1 ... | sched...  progN is a word over {R,W} or "-" (empty);
 *        the lock starts as after a read cycles and b write cycles
 *        (rin = rout = a*0x100, win = wout = b, as uint32: lets a case sit on the wrap-around)
 * out :  log: +R0 +W1 -R0 ... | words: rin rout win wout | steps: .. | spins: .. [<deadlock>]
 *        (+ = entered the critical section, - = about to leave it; R/W; thread id)      */
#if defined(VERIF_RACE)
/* race-exploration build (search only, not compared with the model): compiled by clang
 * -fsanitize=thread and linked with tsanrt.c; EVERY access, plain or atomic, to the four lock words
 * yields (so does every read of a wait loop), no macro interposition of the atomics. */
extern void race_share(const void *p, unsigned long len); extern void race_reset(void);
#include "cosched.h"
#include <time.h>
#include <stdint.h>
#else
#include "interpose.h"
#include "cosched.h"
#include <time.h>
#include <stdint.h>

#undef parsec_atomic_fetch_and_int32
static inline int32_t h_rw_fetch_and(volatile int32_t *l, int32_t v)
{
    cos_yield();
    int32_t r = (parsec_atomic_fetch_and_int32)(l, v);
    cos_yield();
    return r;
}
#define parsec_atomic_fetch_and_int32(l,v) h_rw_fetch_and(l,v)
#endif
#define nanosleep(a,b) cos_spin()

#include "parsec/class/parsec_rwlock.c"
#undef nanosleep
#include "hcommon.h"

#define MAXOPS 64
#define MAXEV  (COS_MAX * MAXOPS * 2)
static parsec_atomic_rwlock_t L;
static char prog[COS_MAX][MAXOPS + 1];
static struct { int t; char k; char dir; } evs[MAXEV];
static int nev;

static void rec(int t, char k, char dir)
{
    if (nev < MAXEV) { evs[nev].t = t; evs[nev].k = k; evs[nev].dir = dir; nev++; }
}

static void worker(void *arg)
{
    int t = (int)(intptr_t)arg;
    for (const char *p = prog[t]; *p; p++) {
        if (*p == 'R') {
            parsec_atomic_rwlock_rdlock(&L);
            rec(t, 'R', '+');
            cos_yield();                       /* inside the critical section */
            rec(t, 'R', '-');
            parsec_atomic_rwlock_rdunlock(&L);
        } else {
            parsec_atomic_rwlock_wrlock(&L);
            rec(t, 'W', '+');
            cos_yield();
            rec(t, 'W', '-');
            parsec_atomic_rwlock_wrunlock(&L);
        }
    }
}

int main(int argc, char **argv)
{
    FILE *f = hc_open(argc, argv); char *l;
    static long sched[1 << 16];
    while ((l = hc_next(f))) {
        long ab[2] = { 0, 0 };
        char *p0 = l;
        if (hc_ints(&p0, ab, 2) != 2) { printf("<bad case>\n"); continue; }
        char *bar = strchr(p0, '|');
        if (!bar) { printf("<bad case>\n"); continue; }
        *bar = 0;
        int nt = 0, bad = 0;
        for (char *w = strtok(p0, " "); w; w = strtok(NULL, " ")) {
            if (nt >= COS_MAX || strlen(w) > MAXOPS) { bad = 1; break; }
            if (!strcmp(w, "-")) prog[nt][0] = 0;
            else {
                strcpy(prog[nt], w);
                for (char *q = w; *q; q++) if (*q != 'R' && *q != 'W') bad = 1;
            }
            nt++;
        }
        if (bad) { printf("<bad case>\n"); continue; }
        char *p = bar + 1;
        int ns = hc_ints(&p, sched, 1 << 16);
        parsec_atomic_rwlock_init(&L);
        L.rin = L.rout = (int32_t)((uint32_t)ab[0] * 0x100u);
        L.win = L.wout = (int32_t)(uint32_t)ab[1];
        nev = 0;
#if defined(VERIF_RACE)
        race_reset(); race_share((const void *)&L, sizeof(L));
#endif
        cos_reset();
        for (int t = 0; t < nt; t++) cos_spawn(worker, (void *)(intptr_t)t);
        int dl = cos_run(sched, ns, 1000);
        printf("log:");
        for (int i = 0; i < nev; i++) printf(" %c%c%d", evs[i].dir, evs[i].k, evs[i].t);
        printf(" | words: %u %u %u %u | steps:", (unsigned)L.rin, (unsigned)L.rout, (unsigned)L.win, (unsigned)L.wout);
        for (int t = 0; t < nt; t++) printf(" %d", cos_steps[t]);
        printf(" | spins:");
        for (int t = 0; t < nt; t++) printf(" %d", cos_spins[t]);
        printf("%s\n", dl ? " <deadlock>" : "");
    }
    return 0;
}
