/* C10 harness (T-sched): the real local termination detector
 * (parsec/mca/termdet/local/termdet_local_module.c, included below so that its
 * atomic operations yield to cosched) driven through its module table on a
 * fake taskpool; every model thread is a coroutine that runs a list of module
 * operations, interleaved by the schedule of the case.
 *
 * case:  RC0 | ops of thread 0 ; ops of thread 1 ; ... | sched ... | tags (ignored here)
 *   ops: M monitor  R ready  Q state  t<v> addto_nb_tasks  p<v> addto_runtime_actions
 *        T<v> set_nb_tasks  P<v> set_runtime_actions
 *        Gt/Gp give a task / pending-action reference (mailbox++), Kt/Kp take one (waits)
 * out :  cb=S/D at=C bad=B rdy=C | nt= pa= mon= rc= dead= | ret: per-thread return values ; ... | steps: ...
 *   cb=S/D : callback started / returned;  at : global step index of the first callback start;
 *   bad    : callback entries/exits at which nb_tasks or nb_pending_actions was non-zero;
 *   rdy    : global step index at which the first taskpool_ready call began (0 = never).        */
#include "interpose.h"
#include "cosched.h"
#include "parsec/mca/termdet/local/termdet_local_module.c"
#include "hcommon.h"

#define MAXOPS 64
enum { K_M, K_R, K_Q, K_t, K_p, K_T, K_P, K_Gt, K_Gp, K_Kt, K_Kp };
typedef struct { int kind; int v; } hop_t;
static hop_t prog[COS_MAX][MAXOPS];
static int nops[COS_MAX], nret[COS_MAX];
static long rets[COS_MAX][MAXOPS];

static parsec_taskpool_t tp;
static int cb_started, cb_done, cb_at, cb_bad, rdy_at, dead;
static int mbox[2];

static int clock_now(void) { int s = 0; for (int i = 0; i < cos_n; i++) s += cos_steps[i]; return s; }
static int counters_nonzero(void) { return (tp.nb_tasks != 0 || tp.nb_pending_actions != 0) ? 1 : 0; }

static void the_callback(parsec_taskpool_t *p) {
    (void)p;
    if (0 == cb_started) cb_at = clock_now();
    cb_started++; cb_bad += counters_nonzero();
    cos_yield();                               /* the callback takes time */
    cb_done++; cb_bad += counters_nonzero();
}
static void the_release(parsec_object_t *o) { (void)o; dead++; }

static void worker(void *arg) {
    int t = (int)(intptr_t)arg;
    const parsec_termdet_base_module_t *m = tp.tdm.module;
    for (int i = 0; i < nops[t]; i++) {
        hop_t o = prog[t][i];
        switch (o.kind) {
        case K_M: m->monitor_taskpool(&tp, the_callback); break;
        case K_R: if (0 == rdy_at) rdy_at = clock_now();
                  rets[t][nret[t]++] = m->taskpool_ready(&tp); break;
        case K_Q: { int s = (int)m->taskpool_state(&tp);
                    if (PARSEC_TERM_TP_TERMINATED == s) { if (counters_nonzero()) s += 100; if (0 == cb_done) s += 200; }
                    rets[t][nret[t]++] = s; break; }
        case K_t: rets[t][nret[t]++] = m->taskpool_addto_nb_tasks(&tp, o.v); break;
        case K_p: rets[t][nret[t]++] = m->taskpool_addto_runtime_actions(&tp, o.v); break;
        case K_T: rets[t][nret[t]++] = m->taskpool_set_nb_tasks(&tp, o.v); break;
        case K_P: rets[t][nret[t]++] = m->taskpool_set_runtime_actions(&tp, o.v); break;
        case K_Gt: mbox[0]++; break;
        case K_Gp: mbox[1]++; break;
        case K_Kt: while (0 == mbox[0]) cos_spin(); mbox[0]--; break;
        case K_Kp: while (0 == mbox[1]) cos_spin(); mbox[1]--; break;
        }
        cos_yield();                           /* operation boundary = step boundary */
    }
}

static int parse_ops(char *s, int t) {
    int n = 0;
    for (;;) {
        while (*s == ' ') s++;
        if (!*s) break;
        if (n >= MAXOPS) return -1;
        hop_t o = { 0, 0 };
        char c = *s++;
        switch (c) {
        case 'M': o.kind = K_M; break;
        case 'R': o.kind = K_R; break;
        case 'Q': o.kind = K_Q; break;
        case 't': o.kind = K_t; o.v = (int)strtol(s, &s, 10); break;
        case 'p': o.kind = K_p; o.v = (int)strtol(s, &s, 10); break;
        case 'T': o.kind = K_T; o.v = (int)strtol(s, &s, 10); break;
        case 'P': o.kind = K_P; o.v = (int)strtol(s, &s, 10); break;
        case 'G': o.kind = (*s++ == 't') ? K_Gt : K_Gp; break;
        case 'K': o.kind = (*s++ == 't') ? K_Kt : K_Kp; break;
        default: return -1;
        }
        prog[t][n++] = o;
    }
    nops[t] = n;
    return 0;
}

int main(int argc, char **argv) {
    FILE *f = hc_open(argc, argv); char *l;
    static long sched[16384];
    while ((l = hc_next(f))) {
        char *f0 = l, *f1 = strchr(l, '|');
        if (!f1) { printf("<bad case>\n"); continue; }
        *f1++ = 0;
        char *f2 = strchr(f1, '|');
        if (!f2) { printf("<bad case>\n"); continue; }
        *f2++ = 0;
        int rc0 = (int)strtol(f0, NULL, 10);
        int nt = 0, bad = 0;
        for (char *s = f1; s; ) {
            char *e = strchr(s, ';');
            if (e) *e = 0;
            if (nt >= COS_MAX || parse_ops(s, nt) < 0) { bad = 1; break; }
            nt++;
            s = e ? e + 1 : NULL;
        }
        if (bad) { printf("<bad case>\n"); continue; }
        char *p = f2;
        int ns = hc_ints(&p, sched, 16384);

        memset(&tp, 0, sizeof(tp));
        ((parsec_object_t *)&tp)->obj_reference_count = rc0;
        ((parsec_object_t *)&tp)->obj_release = the_release;
        tp.tdm.module = &parsec_termdet_local_module.module;
        cb_started = cb_done = cb_at = cb_bad = rdy_at = dead = 0; mbox[0] = mbox[1] = 0;
        tp.tdm.module->monitor_taskpool(&tp, the_callback);      /* initial state of the model: NOT_READY, 0, 0 */

        cos_reset();
        for (int t = 0; t < nt; t++) { nret[t] = 0; cos_spawn(worker, (void *)(intptr_t)t); }
        int dl = cos_run(sched, ns, 300);
        printf("cb=%d/%d at=%d bad=%d rdy=%d | nt=%d pa=%d mon=%d rc=%d dead=%d | ret:",
               cb_started, cb_done, cb_at, cb_bad, rdy_at,
               (int)tp.nb_tasks, (int)tp.nb_pending_actions, (int)(intptr_t)tp.tdm.monitor,
               (int)((parsec_object_t *)&tp)->obj_reference_count, dead);
        for (int t = 0; t < nt; t++) {
            if (t) printf(" ;");
            for (int i = 0; i < nret[t]; i++) printf(" %ld", rets[t][i]);
        }
        printf(" | steps:");
        for (int t = 0; t < nt; t++) printf(" %d", cos_steps[t]);
        printf("%s\n", dl ? " <deadlock>" : "");
    }
    return 0;
}
