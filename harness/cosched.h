/* cosched — deterministic scheduler for T-sched harnesses (DESIGN.md 2.2).
 * Every model "thread" is a ucontext coroutine on the one OS thread; the code
 * under test calls cos_yield() before each shared-memory access (through the
 * macros of interpose.h) and cos_spin() inside wait loops.  A schedule is a
 * list of thread ids; cos_step(t) resumes thread t up to its next yield.
 * Include this file in exactly one translation unit of the harness. */
#ifndef VERIF_COSCHED_H
#define VERIF_COSCHED_H
#include <ucontext.h>
#include <stdlib.h>
#include <stdio.h>
#define COS_MAX 32
#define COS_STACK (512*1024)
typedef void (*cos_fn)(void *);
static ucontext_t cos_main_ctx, cos_ctx[COS_MAX];
static char *cos_stack[COS_MAX];
static int cos_n = 0, cos_cur = -1;
static int cos_finished[COS_MAX], cos_steps[COS_MAX], cos_spins[COS_MAX], cos_last_spin[COS_MAX];
static cos_fn cos_f[COS_MAX];
static void *cos_a[COS_MAX];
int cos_enabled = 1;

int cos_self(void) { return cos_cur; }
void cos_yield(void) {
    if (cos_cur < 0 || !cos_enabled) return;
    int t = cos_cur; cos_cur = -1; cos_last_spin[t] = 0;
    swapcontext(&cos_ctx[t], &cos_main_ctx);
}
void cos_spin(void) {
    if (cos_cur < 0 || !cos_enabled) return;
    int t = cos_cur; cos_cur = -1; cos_last_spin[t] = 1; cos_spins[t]++;
    swapcontext(&cos_ctx[t], &cos_main_ctx);
}
static void cos_tramp(int t) {
    cos_f[t](cos_a[t]);
    cos_finished[t] = 1; cos_cur = -1;
    swapcontext(&cos_ctx[t], &cos_main_ctx);
}
static void cos_reset(void) {
    for (int i = 0; i < cos_n; i++) { free(cos_stack[i]); cos_stack[i] = NULL; }
    cos_n = 0; cos_cur = -1;
}
static int cos_spawn(cos_fn f, void *a) {
    int t = cos_n++;
    if (t >= COS_MAX) { fprintf(stderr, "cosched: too many threads\n"); exit(3); }
    cos_f[t] = f; cos_a[t] = a; cos_finished[t] = 0; cos_steps[t] = 0; cos_spins[t] = 0; cos_last_spin[t] = 0;
    cos_stack[t] = malloc(COS_STACK);
    getcontext(&cos_ctx[t]);
    cos_ctx[t].uc_stack.ss_sp = cos_stack[t]; cos_ctx[t].uc_stack.ss_size = COS_STACK;
    cos_ctx[t].uc_link = &cos_main_ctx;
    makecontext(&cos_ctx[t], (void (*)(void))cos_tramp, 1, t);
    return t;
}
/* resume thread t until its next yield; returns 0 when t does not exist or has finished (a no-op step) */
static int cos_step(int t) {
    if (t < 0 || t >= cos_n || cos_finished[t]) return 0;
    cos_cur = t; cos_steps[t]++;
    swapcontext(&cos_main_ctx, &cos_ctx[t]);
    return 1;
}
static int cos_all_done(void) { for (int i = 0; i < cos_n; i++) if (!cos_finished[i]) return 0; return 1; }
/* run the schedule, then round-robin until every thread has finished.
 * returns 0 on completion, 1 when maxsteps further steps did not finish (deadlock / livelock) */
static int cos_run(const long *sched, int ns, long maxsteps) {
    for (int i = 0; i < ns; i++) cos_step((int)sched[i]);
    long k = 0;
    while (!cos_all_done()) {
        for (int t = 0; t < cos_n; t++) { cos_step(t); }
        if (++k > maxsteps) return 1;
    }
    return 0;
}
#endif
