/* C32 harness: the real parsec/class/parsec_hash_table.c (and parsec_rwlock.c), compiled
 * in this translation unit after interpose.h so that every bucket lock / unlock, the
 * atomic decrement of used_buckets, the CAS that unlinks an old table and the atomic
 * operations of the read-write lock are scheduling points of cosched.
 * The wait loops of the ticket rw-lock call nanosleep() once they have spun 1000 times;
 * nanosleep is redefined to cos_spin() for parsec_rwlock.c, so a waiting thread yields
 * (one stutter step per resumption) instead of spinning for ever on the single OS thread.
 *
 * T-seq   :  seq  BITS HINT MAXBITS | op op op ...
 *            seqh ...                     (same, lock/unlock/nolock ops through the handle API)
 *            ops:  i K V   f K   r K   l K   u K   ni K V   nf K   nr K   a
 *   out   :  one field per op:  <op>:<result> {dump}   separated by " | "
 *            dump = for each table of the chain  T<bits>/<used_buckets>: b[cur_len]=k,k,... ...
 * T-sched :  sched BITS HINT MAXBITS | pre-ops | ops of thread 0 / ops of thread 1 / ... | schedule
 *            (thread ops: i K V, f K, r K; pre-ops run before the threads start)
 *   out   :  t<j>: <op>:<k>:<result>@<inv>-<resp> ... | ... | {dump} | rw=rin,rout,win,wout | steps: s0 s1 ..
 *            inv/resp = number of scheduler steps started when the call was made / had returned. */
#include <time.h>
#include <stdarg.h>
#include <stdlib.h>
#if defined(VERIF_RACE)
/* race-exploration build (search only, never compared with the model): the TU is compiled by clang
 * -fsanitize=thread and linked with tsanrt.c instead of the TSan runtime: EVERY access, plain or atomic,
 * to the registered shared bytes -- the table, every head and bucket array it allocates (malloc is
 * wrapped for the two repo files), the items -- is a scheduling point; no macro interposition.
 * nanosleep -> cos_spin also covers the wait loop of parsec_atomic_lock (atomic-c11.h). */
extern void race_share(const void *p, unsigned long len); extern void race_reset(void);
#include "cosched.h"
#define nanosleep(a, b) (cos_spin(), 0)
static void *hx_malloc(size_t n) { void *p = malloc(n); if (p) race_share(p, n); return p; }
#include "parsec/parsec_config.h"
#include "parsec/sys/atomic.h"
#include "parsec/class/parsec_object.h"
#include "parsec/class/list.h"
#include "parsec/utils/mca_param.h"
#include "parsec/utils/debug.h"
#define malloc(n) hx_malloc(n)
#include "parsec/class/parsec_rwlock.c"
#include "parsec/class/parsec_hash_table.c"
#undef malloc
#undef nanosleep
#else
#include "interpose.h"
#include "cosched.h"
#define nanosleep(a, b) (cos_spin(), 0)
#include "parsec/class/parsec_rwlock.c"
#undef nanosleep
#include "parsec/class/parsec_hash_table.c"
#endif
#include "hcommon.h"

typedef struct { parsec_hash_table_item_t hi; long val; } hitem_t;

static parsec_hash_table_t ht;
static int use_handle;
static parsec_key_handle_t cur_handle;

#define OBUF (1<<20)
static char obuf[OBUF]; static size_t olen;
static void out(const char *fmt, ...) {
    va_list ap; va_start(ap, fmt);
    if (olen < OBUF - 1) { int n = vsnprintf(obuf + olen, OBUF - olen, fmt, ap); if (n > 0) olen += (size_t)n; if (olen >= OBUF) olen = OBUF - 1; }
    va_end(ap);
}

static void dump(void) {
    out("{");
    int first = 1, guard = 0;
    for (parsec_hash_table_head_t *h = ht.rw_hash; h && guard < 64; h = h->next, guard++) {
        out("%sT%u/%d:", first ? "" : " ", h->nb_bits, (int)h->used_buckets); first = 0;
        for (size_t i = 0; i < (1ULL << h->nb_bits); i++) {
            parsec_hash_table_item_t *it = h->buckets[i].first_item;
            if (!it && h->buckets[i].cur_len == 0) continue;
            out(" %zu[%d]=", i, (int)h->buckets[i].cur_len);
            int n = 0;
            for (; it && n < 10000; it = it->next_item, n++) out("%s%llu", n ? "," : "", (unsigned long long)it->key);
        }
    }
    out("}");
}

static void visit(void *item, void *cb) { (void)cb; hitem_t *it = item; out(" %llu=%ld", (unsigned long long)it->hi.key, it->val); }

typedef struct { char op[4]; unsigned long long k; long v; } op_t;
#define MAXOPS 4096
static hitem_t *items; static int nitems;

static int parse_ops(char *s, op_t *ops, int max) {
    int n = 0; char *save = NULL;
    for (char *tok = strtok_r(s, " ", &save); tok; tok = strtok_r(NULL, " ", &save)) {
        if (n >= max) break;
        op_t *o = &ops[n]; memset(o, 0, sizeof(*o));
        strncpy(o->op, tok, 3);
        int needk = strcmp(tok, "a") != 0, needv = !strcmp(tok, "i") || !strcmp(tok, "ni");
        if (needk) { tok = strtok_r(NULL, " ", &save); if (!tok) break; o->k = strtoull(tok, NULL, 10); }
        if (needv) { tok = strtok_r(NULL, " ", &save); if (!tok) break; o->v = strtol(tok, NULL, 10); }
        n++;
    }
    return n;
}

static hitem_t *new_item(unsigned long long k, long v) {
    hitem_t *it = &items[nitems++]; memset(it, 0, sizeof(*it)); it->hi.key = (parsec_key_t)k; it->val = v; return it;
}
static void out_ptr(void *p) { if (p) out("%ld", ((hitem_t *)p)->val); else out("-"); }

/* one operation on the real table; prints "<op>:<result>" */
static void do_op(op_t *o) {
    parsec_key_t k = (parsec_key_t)o->k;
    out("%s:", o->op);
    if (!strcmp(o->op, "i")) { parsec_hash_table_insert(&ht, &new_item(o->k, o->v)->hi); out("."); }
    else if (!strcmp(o->op, "f")) out_ptr(parsec_hash_table_find(&ht, k));
    else if (!strcmp(o->op, "r")) out_ptr(parsec_hash_table_remove(&ht, k));
    else if (!strcmp(o->op, "l")) { if (use_handle) parsec_hash_table_lock_bucket_handle(&ht, k, &cur_handle); else parsec_hash_table_lock_bucket(&ht, k); out("."); }
    else if (!strcmp(o->op, "u")) { if (use_handle) parsec_hash_table_unlock_bucket_handle(&ht, &cur_handle); else parsec_hash_table_unlock_bucket(&ht, k); out("."); }
    else if (!strcmp(o->op, "ni")) { hitem_t *it = new_item(o->k, o->v);
        if (use_handle) { parsec_key_handle_t kh = { .key = k, .hash64 = ht.key_functions.key_hash(k, ht.hash_data) };
                          kh.hash = parsec_hash_table_universal_rehash(kh.hash64, ht.rw_hash->nb_bits);
                          parsec_hash_table_nolock_insert_handle(&ht, &kh, &it->hi); }
        else parsec_hash_table_nolock_insert(&ht, &it->hi);
        out("."); }
    else if (!strcmp(o->op, "nf")) { if (use_handle && cur_handle.key == k) out_ptr(parsec_hash_table_nolock_find_handle(&ht, &cur_handle)); else out_ptr(parsec_hash_table_nolock_find(&ht, k)); }
    else if (!strcmp(o->op, "nr")) { if (use_handle && cur_handle.key == k) out_ptr(parsec_hash_table_nolock_remove_handle(&ht, &cur_handle)); else out_ptr(parsec_hash_table_nolock_remove(&ht, k)); }
    else if (!strcmp(o->op, "a")) { parsec_hash_table_for_all(&ht, visit, NULL); }
    else out("?");
}

/* ---- T-seq: the whole sequence in one coroutine (a lost unlock shows as <deadlock>, not as a hang) */
static op_t seq_ops[MAXOPS]; static int seq_n;
static void seq_body(void *arg) {
    (void)arg;
    for (int j = 0; j < seq_n; j++) { if (j) out(" | "); do_op(&seq_ops[j]); out(" "); dump(); }
}

/* ---- T-sched */
#define MAXT 16
typedef struct { op_t *ops; int n; long res[256]; int inv[256], resp[256]; } thr_t;
static thr_t thr[MAXT];
static op_t thr_ops[MAXT][256];
static int cos_total(void) { int s = 0; for (int i = 0; i < cos_n; i++) s += cos_steps[i]; return s; }
static void worker(void *arg) {
    thr_t *th = arg;
    for (int j = 0; j < th->n; j++) {
        op_t *o = &th->ops[j]; parsec_key_t k = (parsec_key_t)o->k; void *p = NULL;
        th->inv[j] = cos_total();
        if (!strcmp(o->op, "i")) parsec_hash_table_insert(&ht, &new_item(o->k, o->v)->hi);
        else if (!strcmp(o->op, "f")) p = parsec_hash_table_find(&ht, k);
        else if (!strcmp(o->op, "r")) p = parsec_hash_table_remove(&ht, k);
        th->res[j] = p ? ((hitem_t *)p)->val : -1;
        th->resp[j] = cos_total();
        if (j + 1 < th->n) cos_yield();
    }
}

static void table_setup(long bits, long hint, long maxbits) {
#if defined(VERIF_RACE)
    race_reset(); race_share(&ht, sizeof(ht)); race_share(items, sizeof(hitem_t) * (MAXOPS + MAXT * 256));
#endif
    parsec_mca_param_set_int(parsec_hash_table_mca_param_mch_index, (int)hint);
    parsec_mca_param_set_int(parsec_hash_table_mca_param_mnb_index, (int)maxbits);
    memset(&ht, 0, sizeof(ht));
    parsec_hash_table_init(&ht, offsetof(hitem_t, hi), (int)bits, parsec_hash_table_generic_key_fn, NULL);
    nitems = 0;
}

int main(int argc, char **argv) {
    FILE *f = hc_open(argc, argv); char *l;
    static long sched[1 << 16]; long v[8];
    parsec_debug_init();
    parsec_mca_param_init();
    if (parsec_hash_tables_init() != PARSEC_SUCCESS) { fprintf(stderr, "parsec_hash_tables_init failed\n"); return 3; }
    items = malloc(sizeof(hitem_t) * (MAXOPS + MAXT * 256));
    while ((l = hc_next(f))) {
        olen = 0; obuf[0] = 0;
        int is_sched = !strncmp(l, "sched", 5);
        use_handle = !strncmp(l, "seqh", 4);
        char *p = l + (is_sched ? 5 : (use_handle ? 4 : 3));
        if (strncmp(l, "seq", 3) && !is_sched) { printf("<bad case>\n"); continue; }
        if (hc_ints(&p, v, 8) < 3 || v[0] < 1 || v[0] > 16) { printf("<bad case>\n"); continue; }
        table_setup(v[0], v[1], v[2]);
        cos_reset();
        if (!is_sched) {
            seq_n = parse_ops(p, seq_ops, MAXOPS);
            cos_spawn(seq_body, NULL);
            int dl = cos_run(NULL, 0, 200000);
            printf("%s%s\n", obuf, dl ? " <deadlock>" : "");
            if (dl) continue;
        } else {
            char *q = strchr(p, '|'); if (!q) { printf("<bad case>\n"); continue; } *q++ = 0;
            char *sc = strchr(q, '|'); if (!sc) { printf("<bad case>\n"); continue; } *sc++ = 0;
            /* pre-ops: run directly (no coroutine is current: the yields are no-ops) */
            static op_t pre[MAXOPS]; int np = parse_ops(p, pre, MAXOPS);
            size_t keep = olen;
            for (int j = 0; j < np; j++) { do_op(&pre[j]); }
            olen = keep; obuf[olen] = 0;          /* pre-op results are not part of the observation */
            int nt = 0; char *save = NULL;
            for (char *seg = strtok_r(q, "/", &save); seg && nt < MAXT; seg = strtok_r(NULL, "/", &save)) {
                thr[nt].ops = thr_ops[nt]; thr[nt].n = parse_ops(seg, thr_ops[nt], 256); nt++;
            }
            for (int t = 0; t < nt; t++) for (int j = 0; j < 256; j++) { thr[t].res[j] = -2; thr[t].inv[j] = thr[t].resp[j] = -1; }
            int ns = hc_ints(&sc, sched, 1 << 16);
            for (int t = 0; t < nt; t++) cos_spawn(worker, &thr[t]);
            int dl = cos_run(sched, ns, 20000);
            for (int t = 0; t < nt; t++) {
                out("t%d:", t);
                for (int j = 0; j < thr[t].n; j++) {
                    out(" %s:%llu:", thr[t].ops[j].op, thr[t].ops[j].k);
                    if (thr[t].res[j] == -2) { out("?@-1--1"); continue; }       /* did not return */
                    if (!strcmp(thr[t].ops[j].op, "i")) out("."); else if (thr[t].res[j] < 0) out("-"); else out("%ld", thr[t].res[j]);
                    out("@%d-%d", thr[t].inv[j], thr[t].resp[j]);
                }
                out(" | ");
            }
            dump();
            out(" | rw=%d,%d,%d,%d | steps:", (int)ht.rw_lock.rin, (int)ht.rw_lock.rout, (int)ht.rw_lock.win, (int)ht.rw_lock.wout);
            for (int t = 0; t < nt; t++) out(" %d", cos_steps[t]);
            printf("%s%s\n", obuf, dl ? " <deadlock>" : "");
            if (dl) continue;                    /* a blocked coroutine may still point into the tables */
        }
        parsec_hash_table_fini(&ht);
    }
    return 0;
}
