/* C31 harness: executes an operation sequence on real parsec_list_t / parsec_dequeue_t /
 * parsec_fifo_t objects and on a free item ring, with items carrying (id, priority).
 * The class sources are included so that no libparsec is needed (list.h is all inline).
 *
 * case  : op ; op ; ...        (one line)
 *   list ops   "name V L args":  V = API variant, L = 0 | 1 (two independent lists)
 *     pf/pb V L id p      push_front / push_back          of/ob V L       pop_front / pop_back
 *     cf/cb V L id p ...  chain_front / chain_back of the ring made of the given items
 *     ps V L id p         push_sorted                     cs V L [id p ...] chain_sorted (no item: NULL)
 *     so V L              sort                            ie V L          is_empty
 *     rm V L k            remove the k-th item (k >= length: nothing)
 *     ab/aa V L k id p    add_before / add_after the k-th item (k >= length: the ghost element)
 *     ct V L id           nolock_contains
 *     un V L              R = ring_merge(R, unchain(L))
 *     xf/xb/xs V L        chain_front / chain_back / chain_sorted of the free ring R into L; R = NULL
 *   ring ops: rp id p (ring_push)  rq id p (ring_push_sorted)  rc (ring_chop)  rg id p ... (ring_merge)
 *   V: n nolock list API, l locked list API, d/e dequeue wrapper locked/nolock, f/g fifo wrapper
 *      locked/nolock, t/u/v try_pop of list/dequeue/fifo; a variant that does not exist for an
 *      operation falls back to the locked (else nolock) list function.
 * output: one segment per op, " | " separated:  <ret> <items of L>[ R <items of R>]   or  <ret> R <items>
 *   items: id:prio,id:prio,... ('.' when empty) walked forward; the backward walk (list_prev) must be
 *   the exact reverse and must close on the ghost / ring head, otherwise BROKEN(...) is printed instead.
 *   ret: '-' | id:prio (popped, chopped) | id:prio<prev (removed; prev = id:prio or g) | 0/1
 * A case that crashes or loops (corrupted structure) is abandoned through a signal handler.
 *
 * CONCURRENT cases (T-sched):  conc I: id p ... / op ; op ; ... / op ; ... / S: t t t ...
 *   "I:" the initial contents of list 0, then one section per thread (locked operations on list 0
 *   only, same syntax, L must be 0; V in l d f t u v), last the schedule.  Each thread is a cosched
 *   coroutine; the scheduling points are the lock attempts and unlocks (interpose.h) and one yield
 *   between the operations of a thread.  After the schedule (then round-robin to completion):
 *   out:  T0 res@inv-resp ... / T1 ... / L <forward walk, checked against the backward walk> /
 *         D <the list drained with nolock_pop_back> / steps n n ...[ DEADLOCK]
 *   res: '-' | id:prio | 0/1 | [ring items] (unchain); inv/resp = global step numbers.
 *   With -DVERIF_RACE (clang -fsanitize=thread + tsanrt.c) there is no macro interposition: every
 *   plain or atomic access to the list head, its lock and the items is a scheduling point. */
#ifndef BUILDING_PARSEC
#define BUILDING_PARSEC 1   /* inline atomics, as inside the library */
#endif
#if defined(VERIF_RACE)
#include "parsec/parsec_config.h"
extern void race_share(const void *p, unsigned long len); extern void race_reset(void);
#else
#include "interpose.h"
#endif
#include "cosched.h"
#include "parsec/class/parsec_object.c"
#include "parsec/class/parsec_list.c"
#include "parsec/class/parsec_dequeue.c"
#include "parsec/class/parsec_fifo.c"
#include "hcommon.h"
#include <stddef.h>
#include <stdarg.h>
#include <unistd.h>
#include <signal.h>
#include <setjmp.h>
#include <sys/time.h>

typedef struct { parsec_list_item_t super; int id; int prio; } elt_t;
#define OFF offsetof(elt_t, prio)
#define MAXI 1024
#define MAXID 4096
static elt_t pool[MAXI];
static int npool;
static elt_t *byid[MAXID];
static parsec_list_t lists[2];          /* also used as parsec_dequeue_t / parsec_fifo_t (typedefs) */
static parsec_list_item_t *R;           /* free ring */

static char out[1 << 20];
static size_t olen;
static void emit(const char *fmt, ...) {
    va_list ap; va_start(ap, fmt);
    if (olen < sizeof(out) - 256) olen += vsnprintf(out + olen, sizeof(out) - olen, fmt, ap);
    va_end(ap);
}

static elt_t *new_item(long id, long prio) {
    if (id < 0 || id >= MAXID || byid[id] || npool >= MAXI) return NULL;
    elt_t *e = &pool[npool++];
    PARSEC_OBJ_CONSTRUCT(&e->super, parsec_list_item_t);
    e->id = (int)id; e->prio = (int)prio; byid[id] = e;
    return e;
}
static int in_pool(volatile parsec_list_item_t *it) {
    uintptr_t a = (uintptr_t)it, b = (uintptr_t)pool;
    return a >= b && a < b + sizeof(elt_t) * (size_t)npool && (a - b) % sizeof(elt_t) == 0;
}
static void pitem(parsec_list_item_t *it) { emit("%d:%d", ((elt_t *)it)->id, ((elt_t *)it)->prio); }

/* forward and backward walks; end = ghost (list) or ring head (ring, head printed first) */
static void walk(parsec_list_item_t *first, parsec_list_item_t *last, parsec_list_item_t *end, int ring) {
    static parsec_list_item_t *fw[MAXI + 2], *bw[MAXI + 2];
    int nf = 0, nb = 0, ok = 1;
    parsec_list_item_t *it;
    if (ring) {
        if (!end) { emit("."); return; }
        it = end;
        do { if (!in_pool(it) || nf > MAXI) { ok = 0; break; } fw[nf++] = it; it = (parsec_list_item_t *)it->list_next; } while (it != end);
        it = (parsec_list_item_t *)end->list_prev;
        if (ok) for (;;) { if (!in_pool(it) || nb > MAXI) { ok = 0; break; } bw[nb++] = it; if (it == end) break; it = (parsec_list_item_t *)it->list_prev; }
        /* the backward walk starts at head->prev and ends on the head */
        if (ok && nb == nf) { for (int i = 0; i < nf; i++) if (fw[i] != bw[nb - 1 - i]) ok = 0; } else ok = 0;
    } else {
        for (it = first; it != end; it = (parsec_list_item_t *)it->list_next) { if (!in_pool(it) || nf > MAXI) { ok = 0; break; } fw[nf++] = it; }
        if (ok) for (it = last; it != end; it = (parsec_list_item_t *)it->list_prev) { if (!in_pool(it) || nb > MAXI) { ok = 0; break; } bw[nb++] = it; }
        if (ok && nb == nf) { for (int i = 0; i < nf; i++) if (fw[i] != bw[nb - 1 - i]) ok = 0; } else ok = 0;
    }
    if (!ok) {
        emit("BROKEN(fwd=");
        for (int i = 0; i < nf && i < 40; i++) { if (i) emit(","); pitem(fw[i]); }
        emit(";bwd=");
        for (int i = 0; i < nb && i < 40; i++) { if (i) emit(","); pitem(bw[i]); }
        emit(")");
        return;
    }
    if (nf == 0) emit(".");
    for (int i = 0; i < nf; i++) { if (i) emit(","); pitem(fw[i]); }
}
static void show_list(parsec_list_t *l) {
    walk((parsec_list_item_t *)l->ghost_element.list_next, (parsec_list_item_t *)l->ghost_element.list_prev,
         &l->ghost_element, 0);
    if (!parsec_atomic_trylock(&l->atomic_lock)) emit(" LOCKED");
    parsec_atomic_unlock(&l->atomic_lock);
}
static void show_ring(void) { emit(" R "); walk(NULL, NULL, R, 1); }

/* builds a ring from "id p id p ..." with singleton + ring_push; NULL when no item; -1 on error */
static int mk_ring(char **tok, int nt, parsec_list_item_t **ring) {
    *ring = NULL;
    if (nt % 2) return -1;
    for (int i = 0; i < nt; i += 2) {
        elt_t *e = new_item(atol(tok[i]), atol(tok[i + 1]));
        if (!e) return -1;
        if (!*ring) *ring = parsec_list_item_singleton(&e->super);
        else parsec_list_item_ring_push(*ring, &e->super);
    }
    return 0;
}
static parsec_list_item_t *kth(parsec_list_t *l, long k) {   /* ghost when k >= length */
    parsec_list_item_t *it = (parsec_list_item_t *)l->ghost_element.list_next;
    for (long i = 0; i < k && it != &l->ghost_element; i++) it = (parsec_list_item_t *)it->list_next;
    return it;
}

static int do_op(char **t, int n) {
    const char *o = t[0];
    parsec_list_item_t *it, *ring;
    if (!strcmp(o, "rp") && n == 3) {
        elt_t *e = new_item(atol(t[1]), atol(t[2])); if (!e) return -1;
        R = R ? parsec_list_item_ring_push(R, &e->super) : parsec_list_item_singleton(&e->super);
        emit("-"); show_ring(); return 0;
    }
    if (!strcmp(o, "rq") && n == 3) {
        elt_t *e = new_item(atol(t[1]), atol(t[2])); if (!e) return -1;
        R = parsec_list_item_ring_push_sorted(R, &e->super, OFF);
        emit("-"); show_ring(); return 0;
    }
    if (!strcmp(o, "rc") && n == 1) {
        if (R) { it = R; R = parsec_list_item_ring_chop(R); pitem(it); } else emit("-");
        show_ring(); return 0;
    }
    if (!strcmp(o, "rg")) {
        if (mk_ring(t + 1, n - 1, &ring)) return -1;
        if (ring) R = R ? parsec_list_item_ring_merge(R, ring) : ring;
        emit("-"); show_ring(); return 0;
    }
    if (n < 3 || strlen(t[1]) != 1 || (strcmp(t[2], "0") && strcmp(t[2], "1"))) return -1;
    char v = t[1][0];
    parsec_list_t *l = &lists[t[2][0] - '0'];
    int lk = (v != 'n' && v != 'e' && v != 'g');      /* locked flavour wanted */
    int with_ring = 0;
    if ((!strcmp(o, "pf") || !strcmp(o, "pb")) && n == 5) {
        elt_t *e = new_item(atol(t[3]), atol(t[4])); if (!e) return -1;
        it = &e->super;
        if (o[1] == 'f') switch (v) {
            case 'n': parsec_list_nolock_push_front(l, it); break;
            case 'd': parsec_dequeue_push_front(l, it); break;
            case 'e': parsec_dequeue_nolock_push_front(l, it); break;
            default:  parsec_list_push_front(l, it); }
        else switch (v) {
            case 'n': parsec_list_nolock_push_back(l, it); break;
            case 'd': parsec_dequeue_push_back(l, it); break;
            case 'e': parsec_dequeue_nolock_push_back(l, it); break;
            case 'f': parsec_fifo_push(l, it); break;
            case 'g': parsec_fifo_nolock_push(l, it); break;
            default:  parsec_list_push_back(l, it); }
        emit("-");
    } else if ((!strcmp(o, "of") || !strcmp(o, "ob")) && n == 3) {
        if (o[1] == 'f') switch (v) {
            case 'n': it = parsec_list_nolock_pop_front(l); break;
            case 'd': it = parsec_dequeue_pop_front(l); break;
            case 'e': it = parsec_dequeue_nolock_pop_front(l); break;
            case 'f': it = parsec_fifo_pop(l); break;
            case 'g': it = parsec_fifo_nolock_pop(l); break;
            case 't': it = parsec_list_try_pop_front(l); break;
            case 'u': it = parsec_dequeue_try_pop_front(l); break;
            case 'v': it = parsec_fifo_try_pop(l); break;
            default:  it = parsec_list_pop_front(l); }
        else switch (v) {
            case 'n': it = parsec_list_nolock_pop_back(l); break;
            case 'd': it = parsec_dequeue_pop_back(l); break;
            case 'e': it = parsec_dequeue_nolock_pop_back(l); break;
            case 't': it = parsec_list_try_pop_back(l); break;
            case 'u': it = parsec_dequeue_try_pop_back(l); break;
            default:  it = parsec_list_pop_back(l); }
        if (it) { if (in_pool(it)) pitem(it); else emit("WILD"); } else emit("-");
    } else if (!strcmp(o, "cf") || !strcmp(o, "cb")) {
        if (mk_ring(t + 3, n - 3, &ring)) return -1;
        if (ring) {
            if (o[1] == 'f') switch (v) {
                case 'n': parsec_list_nolock_chain_front(l, ring); break;
                case 'd': parsec_dequeue_chain_front(l, ring); break;
                case 'e': parsec_dequeue_nolock_chain_front(l, ring); break;
                default:  parsec_list_chain_front(l, ring); }
            else switch (v) {
                case 'n': parsec_list_nolock_chain_back(l, ring); break;
                case 'd': parsec_dequeue_chain_back(l, ring); break;
                case 'e': parsec_dequeue_nolock_chain_back(l, ring); break;
                case 'f': parsec_fifo_chain(l, ring); break;
                case 'g': parsec_fifo_nolock_chain(l, ring); break;
                default:  parsec_list_chain_back(l, ring); }
        }
        emit("-");
    } else if (!strcmp(o, "ps") && n == 5) {
        elt_t *e = new_item(atol(t[3]), atol(t[4])); if (!e) return -1;
        if (lk) parsec_list_push_sorted(l, &e->super, OFF); else parsec_list_nolock_push_sorted(l, &e->super, OFF);
        emit("-");
    } else if (!strcmp(o, "cs")) {
        if (mk_ring(t + 3, n - 3, &ring)) return -1;
        if (lk) parsec_list_chain_sorted(l, ring, OFF); else parsec_list_nolock_chain_sorted(l, ring, OFF);
        emit("-");
    } else if (!strcmp(o, "so") && n == 3) {
        if (lk) parsec_list_sort(l, OFF); else parsec_list_nolock_sort(l, OFF);
        emit("-");
    } else if (!strcmp(o, "ie") && n == 3) {
        int r;
        switch (v) {
            case 'n': r = parsec_list_nolock_is_empty(l); break;
            case 'd': r = parsec_dequeue_is_empty(l); break;
            case 'e': r = parsec_dequeue_nolock_is_empty(l); break;
            case 'f': r = parsec_fifo_is_empty(l); break;
            case 'g': r = parsec_fifo_nolock_is_empty(l); break;
            default:  r = parsec_list_is_empty(l); }
        emit("%d", r ? 1 : 0);
    } else if (!strcmp(o, "rm") && n == 4) {
        it = kth(l, atol(t[3]));
        if (it == &l->ghost_element) emit("-");
        else {
            parsec_list_item_t *prev = parsec_list_nolock_remove(l, it);
            pitem(it); emit("<");
            if (prev == &l->ghost_element) emit("g"); else if (in_pool(prev)) pitem(prev); else emit("WILD");
        }
    } else if ((!strcmp(o, "ab") || !strcmp(o, "aa")) && n == 6) {
        elt_t *e = new_item(atol(t[4]), atol(t[5])); if (!e) return -1;
        it = kth(l, atol(t[3]));
        if (o[1] == 'b') parsec_list_nolock_add_before(l, it, &e->super);
        else if (lk) parsec_list_add_after(l, it, &e->super);
        else parsec_list_nolock_add_after(l, it, &e->super);
        emit("-");
    } else if (!strcmp(o, "ct") && n == 4) {
        long id = atol(t[3]);
        emit("%d", (id >= 0 && id < MAXID && byid[id]) ? (parsec_list_nolock_contains(l, &byid[id]->super) ? 1 : 0) : 0);
    } else if (!strcmp(o, "un") && n == 3) {
        ring = lk ? parsec_list_unchain(l) : parsec_list_nolock_unchain(l);
        if (ring) R = R ? parsec_list_item_ring_merge(R, ring) : ring;
        emit("-"); with_ring = 1;
    } else if ((!strcmp(o, "xf") || !strcmp(o, "xb")) && n == 3) {
        if (R) {
            if (o[1] == 'f') { if (lk) parsec_list_chain_front(l, R); else parsec_list_nolock_chain_front(l, R); }
            else { if (lk) parsec_list_chain_back(l, R); else parsec_list_nolock_chain_back(l, R); }
        }
        R = NULL; emit("-"); with_ring = 1;
    } else if (!strcmp(o, "xs") && n == 3) {
        if (lk) parsec_list_chain_sorted(l, R, OFF); else parsec_list_nolock_chain_sorted(l, R, OFF);
        R = NULL; emit("-"); with_ring = 1;
    } else return -1;
    emit(" "); show_list(l);
    if (with_ring) show_ring();
    return 0;
}


/* ------------------------------------------------------------------ concurrent cases */
#define MAXCT 8
#define MAXCOPS 16
typedef struct { char o[3]; char v; parsec_list_item_t *arg; } cop_t;          /* arg: item or ring */
typedef struct { int kind; parsec_list_item_t *p; int b; long inv, res; } cres_t; /* kind 0 '-', 1 item, 2 bool, 3 ring */
typedef struct { int nops; cop_t ops[MAXCOPS]; cres_t res[MAXCOPS]; } cthr_t;
static cthr_t CT[MAXCT];
static long now_(void) { long s = 0; for (int i = 0; i < cos_n; i++) s += cos_steps[i]; return s; }

static void conc_worker(void *a) {
    int t = (int)(intptr_t)a; cthr_t *T = &CT[t]; parsec_list_t *l = &lists[0];
    for (int i = 0; i < T->nops; i++) {
        if (i > 0) cos_yield();                      /* operation boundaries are step boundaries */
        cop_t *op = &T->ops[i]; cres_t r; memset(&r, 0, sizeof r);
        const char *o = op->o; char v = op->v; parsec_list_item_t *it = NULL;
        r.inv = now_();
        if (!strcmp(o, "pf")) { if (v == 'd') parsec_dequeue_push_front(l, op->arg); else parsec_list_push_front(l, op->arg); }
        else if (!strcmp(o, "pb")) { if (v == 'd') parsec_dequeue_push_back(l, op->arg); else if (v == 'f') parsec_fifo_push(l, op->arg); else parsec_list_push_back(l, op->arg); }
        else if (!strcmp(o, "of")) {
            switch (v) { case 'd': it = parsec_dequeue_pop_front(l); break; case 'f': it = parsec_fifo_pop(l); break;
                         case 't': it = parsec_list_try_pop_front(l); break; case 'u': it = parsec_dequeue_try_pop_front(l); break;
                         case 'v': it = parsec_fifo_try_pop(l); break; default: it = parsec_list_pop_front(l); }
            r.kind = 1; r.p = it;
        } else if (!strcmp(o, "ob")) {
            switch (v) { case 'd': it = parsec_dequeue_pop_back(l); break; case 't': it = parsec_list_try_pop_back(l); break;
                         case 'u': it = parsec_dequeue_try_pop_back(l); break; default: it = parsec_list_pop_back(l); }
            r.kind = 1; r.p = it;
        }
        else if (!strcmp(o, "cf")) { if (v == 'd') parsec_dequeue_chain_front(l, op->arg); else parsec_list_chain_front(l, op->arg); }
        else if (!strcmp(o, "cb")) { if (v == 'd') parsec_dequeue_chain_back(l, op->arg); else if (v == 'f') parsec_fifo_chain(l, op->arg); else parsec_list_chain_back(l, op->arg); }
        else if (!strcmp(o, "ps")) parsec_list_push_sorted(l, op->arg, OFF);
        else if (!strcmp(o, "cs")) parsec_list_chain_sorted(l, op->arg, OFF);
        else if (!strcmp(o, "so")) parsec_list_sort(l, OFF);
        else if (!strcmp(o, "ie")) { int e = (v == 'd') ? parsec_dequeue_is_empty(l) : (v == 'f') ? parsec_fifo_is_empty(l) : parsec_list_is_empty(l); r.kind = 2; r.b = e ? 1 : 0; }
        else if (!strcmp(o, "un")) { it = parsec_list_unchain(l); r.kind = 3; r.p = it; }
        r.res = now_();
        T->res[i] = r;                               /* recorded in one go, after the call has returned */
    }
}

static int split(char *s, const char *sep, char **out_, int max) {
    int n = 0; char *save = NULL;
    for (char *p = strtok_r(s, sep, &save); p && n < max; p = strtok_r(NULL, sep, &save)) out_[n++] = p;
    return n;
}

static void run_conc(char *line) {
    static char *sec[MAXCT + 3]; static char *opv[MAXCOPS + 1]; static char *tok[2100]; static long sched[8192];
    int nsec = split(line + 5, "/", sec, MAXCT + 3);
    if (nsec < 3) { emit("<bad case>\n"); return; }
    int nt = nsec - 2;
    PARSEC_OBJ_CONSTRUCT(&lists[0], parsec_list_t);
    parsec_list_t *l = &lists[0];
    /* initial contents */
    { int n = split(sec[0], " ", tok, 2100); parsec_list_item_t *ring;
      if (n < 1 || strcmp(tok[0], "I:") || mk_ring(tok + 1, n - 1, &ring)) { emit("<bad case>\n"); return; }
      if (ring) parsec_list_nolock_chain_back(l, ring); }
    for (int t = 0; t < nt; t++) {
        cthr_t *T = &CT[t]; memset(T, 0, sizeof *T);
        int no = split(sec[1 + t], ";", opv, MAXCOPS + 1);
        if (no < 1 || no > MAXCOPS) { emit("<bad case>\n"); return; }
        T->nops = no;
        for (int i = 0; i < no; i++) {
            int n = split(opv[i], " ", tok, 2100); cop_t *op = &T->ops[i];
            if (n < 3 || strlen(tok[0]) != 2 || strlen(tok[1]) != 1 || strcmp(tok[2], "0") || !strchr("ldftuv", tok[1][0])) { emit("<bad case>\n"); return; }
            strcpy(op->o, tok[0]); op->v = tok[1][0]; op->arg = NULL;
            const char *o = op->o; int ok = 0;
            if ((!strcmp(o, "pf") || !strcmp(o, "pb") || !strcmp(o, "ps")) && n == 5) {
                elt_t *e = new_item(atol(tok[3]), atol(tok[4])); if (e) { op->arg = &e->super; ok = 1; }
            } else if ((!strcmp(o, "cf") || !strcmp(o, "cb")) && n >= 5) { ok = !mk_ring(tok + 3, n - 3, &op->arg); }
            else if (!strcmp(o, "cs")) { ok = !mk_ring(tok + 3, n - 3, &op->arg); }
            else if ((!strcmp(o, "of") || !strcmp(o, "ob") || !strcmp(o, "so") || !strcmp(o, "ie") || !strcmp(o, "un")) && n == 3) ok = 1;
            if (!ok) { emit("<bad case>\n"); return; }
        }
    }
    int ns;
    { char *p = sec[nsec - 1]; while (*p == ' ') p++; if (strncmp(p, "S:", 2)) { emit("<bad case>\n"); return; } p += 2; ns = hc_ints(&p, sched, 8192); }
#if defined(VERIF_RACE)
    race_reset(); race_share(&lists[0], sizeof lists[0]); race_share(pool, sizeof(elt_t) * (size_t)npool);
#endif
    cos_reset();
    for (int t = 0; t < nt; t++) cos_spawn(conc_worker, (void *)(intptr_t)t);
    int dl = cos_run(sched, ns, 1000);
    cos_cur = -1;
    for (int t = 0; t < nt; t++) {
        emit("%sT%d", t ? " / " : "", t);
        for (int i = 0; i < CT[t].nops; i++) {
            cres_t *r = &CT[t].res[i];
            emit(" ");
            if (r->res == 0) { emit("?"); continue; }                /* not completed (deadlock) */
            if (r->kind == 1) { if (!r->p) emit("-"); else if (in_pool(r->p)) pitem(r->p); else emit("WILD"); }
            else if (r->kind == 2) emit("%d", r->b);
            else if (r->kind == 3) { emit("["); walk(NULL, NULL, r->p, 1); emit("]"); }
            else emit("-");
            emit("@%ld-%ld", r->inv, r->res);
        }
    }
    emit(" / L "); show_list(l);
    emit(" / D ");
    { int n = 0; parsec_list_item_t *it;
      while (n <= npool + 1 && (it = parsec_list_nolock_pop_back(l))) { if (n) emit(","); if (in_pool(it)) pitem(it); else { emit("WILD"); break; } n++; }
      if (n == 0) emit("."); if (n > npool + 1) emit(",CYCLE"); }
    emit(" / steps"); for (int t = 0; t < nt; t++) emit(" %d", cos_steps[t]);
    if (dl) emit(" DEADLOCK");
    emit("\n");
}
static void run_case(char *line) {
    if (!strncmp(line, "conc ", 5)) { run_conc(line); return; }
    static char *ops[4096]; int nops = 0;
    for (char *s = strtok(line, ";"); s && nops < 4096; s = strtok(NULL, ";")) ops[nops++] = s;
    PARSEC_OBJ_CONSTRUCT(&lists[0], parsec_list_t);
    PARSEC_OBJ_CONSTRUCT(&lists[1], parsec_dequeue_t);
    for (int i = 0; i < nops; i++) {
        static char *tok[2100]; int nt = 0;
        for (char *s = strtok(ops[i], " "); s && nt < 2100; s = strtok(NULL, " ")) tok[nt++] = s;
        if (i) emit(" | ");
        if (nt == 0 || do_op(tok, nt)) { olen = 0; emit("<bad case>"); break; }
    }
    emit("\n");
}

static sigjmp_buf crash_jmp;
static void on_signal(int sig) { siglongjmp(crash_jmp, sig); }

int main(int argc, char **argv) {
    FILE *f = hc_open(argc, argv); char *l;
    struct sigaction sa; memset(&sa, 0, sizeof sa); sa.sa_handler = on_signal; sigemptyset(&sa.sa_mask);
    sigaction(SIGSEGV, &sa, NULL); sigaction(SIGBUS, &sa, NULL); sigaction(SIGVTALRM, &sa, NULL);
    int ntimeouts = 0;
    while ((l = hc_next(f))) {
        /* all state is static and rebuilt per case (no allocation in the list code), so a case that
         * crashes or loops on a corrupted structure is abandoned and the next one starts clean.  A case
         * takes microseconds: 200 ms of CPU means a loop; after 25 of them the rest is not run. */
        if (ntimeouts >= 25) { printf("<not run: too many cases looped>\n"); continue; }
        npool = 0; R = NULL; olen = 0; memset(byid, 0, sizeof byid);
        struct itimerval on = { {0, 0}, {0, 200000} }, off = { {0, 0}, {0, 0} };
        int sig = sigsetjmp(crash_jmp, 1);
        if (sig == 0) { setitimer(ITIMER_VIRTUAL, &on, NULL); run_case(l); setitimer(ITIMER_VIRTUAL, &off, NULL); fwrite(out, 1, olen, stdout); }
        else { setitimer(ITIMER_VIRTUAL, &off, NULL); if (sig == SIGVTALRM) ntimeouts++; printf("<crash signal %d>\n", sig); }
    }
    return 0;
}
