/* C31 harness: executes an operation sequence on real parsec_list_t / parsec_dequeue_t /
 * parsec_fifo_t objects and on a free item ring, with items carrying (id, priority).
 * The class sources are included so that no libparsec is needed (list.h is all inline).
 *
 * case  : op ; op ; ...        (one line)
 *   list ops   "name V L args":  V = API variant, L = 0 | 1 (two independent lists)
 *     pf/pb V L id p      push_front / push_back          of/ob V L       pop_front / pop_back
 *     cf/cb V L id p ...  chain_front / chain_back of the ring made of the given items
 *     ps V L id p         push_sorted                     cs V L [id p ...] chain_sorted (no item: NULL)
 *     so V L              sort                            ie V L          is_empty
 *     rm V L k            remove the k-th item (k >= length: nothing)
 *     ab/aa V L k id p    add_before / add_after the k-th item (k >= length: the ghost element)
 *     ct V L id           nolock_contains
 *     un V L              R = ring_merge(R, unchain(L))
 *     xf/xb/xs V L        chain_front / chain_back / chain_sorted of the free ring R into L; R = NULL
 *   ring ops: rp id p (ring_push)  rq id p (ring_push_sorted)  rc (ring_chop)  rg id p ... (ring_merge)
 *   V: n nolock list API, l locked list API, d/e dequeue wrapper locked/nolock, f/g fifo wrapper
 *      locked/nolock, t/u/v try_pop of list/dequeue/fifo; a variant that does not exist for an
 *      operation falls back to the locked (else nolock) list function.
 * output: one segment per op, " | " separated:  <ret> <items of L>[ R <items of R>]   or  <ret> R <items>
 *   items: id:prio,id:prio,... ('.' when empty) walked forward; the backward walk (list_prev) must be
 *   the exact reverse and must close on the ghost / ring head, otherwise BROKEN(...) is printed instead.
 *   ret: '-' | id:prio (popped, chopped) | id:prio<prev (removed; prev = id:prio or g) | 0/1
 * A case that crashes or loops (corrupted structure) is abandoned through a signal handler. */
#define BUILDING_PARSEC 1   /* inline atomics, as inside the library */
#include "parsec/class/parsec_object.c"
#include "parsec/class/parsec_list.c"
#include "parsec/class/parsec_dequeue.c"
#include "parsec/class/parsec_fifo.c"
#include "hcommon.h"
#include <stddef.h>
#include <stdarg.h>
#include <unistd.h>
#include <signal.h>
#include <setjmp.h>
#include <sys/time.h>

typedef struct { parsec_list_item_t super; int id; int prio; } elt_t;
#define OFF offsetof(elt_t, prio)
#define MAXI 1024
#define MAXID 4096
static elt_t pool[MAXI];
static int npool;
static elt_t *byid[MAXID];
static parsec_list_t lists[2];          /* also used as parsec_dequeue_t / parsec_fifo_t (typedefs) */
static parsec_list_item_t *R;           /* free ring */

static char out[1 << 20];
static size_t olen;
static void emit(const char *fmt, ...) {
    va_list ap; va_start(ap, fmt);
    if (olen < sizeof(out) - 256) olen += vsnprintf(out + olen, sizeof(out) - olen, fmt, ap);
    va_end(ap);
}

static elt_t *new_item(long id, long prio) {
    if (id < 0 || id >= MAXID || byid[id] || npool >= MAXI) return NULL;
    elt_t *e = &pool[npool++];
    PARSEC_OBJ_CONSTRUCT(&e->super, parsec_list_item_t);
    e->id = (int)id; e->prio = (int)prio; byid[id] = e;
    return e;
}
static int in_pool(volatile parsec_list_item_t *it) {
    uintptr_t a = (uintptr_t)it, b = (uintptr_t)pool;
    return a >= b && a < b + sizeof(elt_t) * (size_t)npool && (a - b) % sizeof(elt_t) == 0;
}
static void pitem(parsec_list_item_t *it) { emit("%d:%d", ((elt_t *)it)->id, ((elt_t *)it)->prio); }

/* forward and backward walks; end = ghost (list) or ring head (ring, head printed first) */
static void walk(parsec_list_item_t *first, parsec_list_item_t *last, parsec_list_item_t *end, int ring) {
    static parsec_list_item_t *fw[MAXI + 2], *bw[MAXI + 2];
    int nf = 0, nb = 0, ok = 1;
    parsec_list_item_t *it;
    if (ring) {
        if (!end) { emit("."); return; }
        it = end;
        do { if (!in_pool(it) || nf > MAXI) { ok = 0; break; } fw[nf++] = it; it = (parsec_list_item_t *)it->list_next; } while (it != end);
        it = (parsec_list_item_t *)end->list_prev;
        if (ok) for (;;) { if (!in_pool(it) || nb > MAXI) { ok = 0; break; } bw[nb++] = it; if (it == end) break; it = (parsec_list_item_t *)it->list_prev; }
        /* the backward walk starts at head->prev and ends on the head */
        if (ok && nb == nf) { for (int i = 0; i < nf; i++) if (fw[i] != bw[nb - 1 - i]) ok = 0; } else ok = 0;
    } else {
        for (it = first; it != end; it = (parsec_list_item_t *)it->list_next) { if (!in_pool(it) || nf > MAXI) { ok = 0; break; } fw[nf++] = it; }
        if (ok) for (it = last; it != end; it = (parsec_list_item_t *)it->list_prev) { if (!in_pool(it) || nb > MAXI) { ok = 0; break; } bw[nb++] = it; }
        if (ok && nb == nf) { for (int i = 0; i < nf; i++) if (fw[i] != bw[nb - 1 - i]) ok = 0; } else ok = 0;
    }
    if (!ok) {
        emit("BROKEN(fwd=");
        for (int i = 0; i < nf && i < 40; i++) { if (i) emit(","); pitem(fw[i]); }
        emit(";bwd=");
        for (int i = 0; i < nb && i < 40; i++) { if (i) emit(","); pitem(bw[i]); }
        emit(")");
        return;
    }
    if (nf == 0) emit(".");
    for (int i = 0; i < nf; i++) { if (i) emit(","); pitem(fw[i]); }
}
static void show_list(parsec_list_t *l) {
    walk((parsec_list_item_t *)l->ghost_element.list_next, (parsec_list_item_t *)l->ghost_element.list_prev,
         &l->ghost_element, 0);
    if (!parsec_atomic_trylock(&l->atomic_lock)) emit(" LOCKED");
    parsec_atomic_unlock(&l->atomic_lock);
}
static void show_ring(void) { emit(" R "); walk(NULL, NULL, R, 1); }

/* builds a ring from "id p id p ..." with singleton + ring_push; NULL when no item; -1 on error */
static int mk_ring(char **tok, int nt, parsec_list_item_t **ring) {
    *ring = NULL;
    if (nt % 2) return -1;
    for (int i = 0; i < nt; i += 2) {
        elt_t *e = new_item(atol(tok[i]), atol(tok[i + 1]));
        if (!e) return -1;
        if (!*ring) *ring = parsec_list_item_singleton(&e->super);
        else parsec_list_item_ring_push(*ring, &e->super);
    }
    return 0;
}
static parsec_list_item_t *kth(parsec_list_t *l, long k) {   /* ghost when k >= length */
    parsec_list_item_t *it = (parsec_list_item_t *)l->ghost_element.list_next;
    for (long i = 0; i < k && it != &l->ghost_element; i++) it = (parsec_list_item_t *)it->list_next;
    return it;
}

static int do_op(char **t, int n) {
    const char *o = t[0];
    parsec_list_item_t *it, *ring;
    if (!strcmp(o, "rp") && n == 3) {
        elt_t *e = new_item(atol(t[1]), atol(t[2])); if (!e) return -1;
        R = R ? parsec_list_item_ring_push(R, &e->super) : parsec_list_item_singleton(&e->super);
        emit("-"); show_ring(); return 0;
    }
    if (!strcmp(o, "rq") && n == 3) {
        elt_t *e = new_item(atol(t[1]), atol(t[2])); if (!e) return -1;
        R = parsec_list_item_ring_push_sorted(R, &e->super, OFF);
        emit("-"); show_ring(); return 0;
    }
    if (!strcmp(o, "rc") && n == 1) {
        if (R) { it = R; R = parsec_list_item_ring_chop(R); pitem(it); } else emit("-");
        show_ring(); return 0;
    }
    if (!strcmp(o, "rg")) {
        if (mk_ring(t + 1, n - 1, &ring)) return -1;
        if (ring) R = R ? parsec_list_item_ring_merge(R, ring) : ring;
        emit("-"); show_ring(); return 0;
    }
    if (n < 3 || strlen(t[1]) != 1 || (strcmp(t[2], "0") && strcmp(t[2], "1"))) return -1;
    char v = t[1][0];
    parsec_list_t *l = &lists[t[2][0] - '0'];
    int lk = (v != 'n' && v != 'e' && v != 'g');      /* locked flavour wanted */
    int with_ring = 0;
    if ((!strcmp(o, "pf") || !strcmp(o, "pb")) && n == 5) {
        elt_t *e = new_item(atol(t[3]), atol(t[4])); if (!e) return -1;
        it = &e->super;
        if (o[1] == 'f') switch (v) {
            case 'n': parsec_list_nolock_push_front(l, it); break;
            case 'd': parsec_dequeue_push_front(l, it); break;
            case 'e': parsec_dequeue_nolock_push_front(l, it); break;
            default:  parsec_list_push_front(l, it); }
        else switch (v) {
            case 'n': parsec_list_nolock_push_back(l, it); break;
            case 'd': parsec_dequeue_push_back(l, it); break;
            case 'e': parsec_dequeue_nolock_push_back(l, it); break;
            case 'f': parsec_fifo_push(l, it); break;
            case 'g': parsec_fifo_nolock_push(l, it); break;
            default:  parsec_list_push_back(l, it); }
        emit("-");
    } else if ((!strcmp(o, "of") || !strcmp(o, "ob")) && n == 3) {
        if (o[1] == 'f') switch (v) {
            case 'n': it = parsec_list_nolock_pop_front(l); break;
            case 'd': it = parsec_dequeue_pop_front(l); break;
            case 'e': it = parsec_dequeue_nolock_pop_front(l); break;
            case 'f': it = parsec_fifo_pop(l); break;
            case 'g': it = parsec_fifo_nolock_pop(l); break;
            case 't': it = parsec_list_try_pop_front(l); break;
            case 'u': it = parsec_dequeue_try_pop_front(l); break;
            case 'v': it = parsec_fifo_try_pop(l); break;
            default:  it = parsec_list_pop_front(l); }
        else switch (v) {
            case 'n': it = parsec_list_nolock_pop_back(l); break;
            case 'd': it = parsec_dequeue_pop_back(l); break;
            case 'e': it = parsec_dequeue_nolock_pop_back(l); break;
            case 't': it = parsec_list_try_pop_back(l); break;
            case 'u': it = parsec_dequeue_try_pop_back(l); break;
            default:  it = parsec_list_pop_back(l); }
        if (it) { if (in_pool(it)) pitem(it); else emit("WILD"); } else emit("-");
    } else if (!strcmp(o, "cf") || !strcmp(o, "cb")) {
        if (mk_ring(t + 3, n - 3, &ring)) return -1;
        if (ring) {
            if (o[1] == 'f') switch (v) {
                case 'n': parsec_list_nolock_chain_front(l, ring); break;
                case 'd': parsec_dequeue_chain_front(l, ring); break;
                case 'e': parsec_dequeue_nolock_chain_front(l, ring); break;
                default:  parsec_list_chain_front(l, ring); }
            else switch (v) {
                case 'n': parsec_list_nolock_chain_back(l, ring); break;
                case 'd': parsec_dequeue_chain_back(l, ring); break;
                case 'e': parsec_dequeue_nolock_chain_back(l, ring); break;
                case 'f': parsec_fifo_chain(l, ring); break;
                case 'g': parsec_fifo_nolock_chain(l, ring); break;
                default:  parsec_list_chain_back(l, ring); }
        }
        emit("-");
    } else if (!strcmp(o, "ps") && n == 5) {
        elt_t *e = new_item(atol(t[3]), atol(t[4])); if (!e) return -1;
        if (lk) parsec_list_push_sorted(l, &e->super, OFF); else parsec_list_nolock_push_sorted(l, &e->super, OFF);
        emit("-");
    } else if (!strcmp(o, "cs")) {
        if (mk_ring(t + 3, n - 3, &ring)) return -1;
        if (lk) parsec_list_chain_sorted(l, ring, OFF); else parsec_list_nolock_chain_sorted(l, ring, OFF);
        emit("-");
    } else if (!strcmp(o, "so") && n == 3) {
        if (lk) parsec_list_sort(l, OFF); else parsec_list_nolock_sort(l, OFF);
        emit("-");
    } else if (!strcmp(o, "ie") && n == 3) {
        int r;
        switch (v) {
            case 'n': r = parsec_list_nolock_is_empty(l); break;
            case 'd': r = parsec_dequeue_is_empty(l); break;
            case 'e': r = parsec_dequeue_nolock_is_empty(l); break;
            case 'f': r = parsec_fifo_is_empty(l); break;
            case 'g': r = parsec_fifo_nolock_is_empty(l); break;
            default:  r = parsec_list_is_empty(l); }
        emit("%d", r ? 1 : 0);
    } else if (!strcmp(o, "rm") && n == 4) {
        it = kth(l, atol(t[3]));
        if (it == &l->ghost_element) emit("-");
        else {
            parsec_list_item_t *prev = parsec_list_nolock_remove(l, it);
            pitem(it); emit("<");
            if (prev == &l->ghost_element) emit("g"); else if (in_pool(prev)) pitem(prev); else emit("WILD");
        }
    } else if ((!strcmp(o, "ab") || !strcmp(o, "aa")) && n == 6) {
        elt_t *e = new_item(atol(t[4]), atol(t[5])); if (!e) return -1;
        it = kth(l, atol(t[3]));
        if (o[1] == 'b') parsec_list_nolock_add_before(l, it, &e->super);
        else if (lk) parsec_list_add_after(l, it, &e->super);
        else parsec_list_nolock_add_after(l, it, &e->super);
        emit("-");
    } else if (!strcmp(o, "ct") && n == 4) {
        long id = atol(t[3]);
        emit("%d", (id >= 0 && id < MAXID && byid[id]) ? (parsec_list_nolock_contains(l, &byid[id]->super) ? 1 : 0) : 0);
    } else if (!strcmp(o, "un") && n == 3) {
        ring = lk ? parsec_list_unchain(l) : parsec_list_nolock_unchain(l);
        if (ring) R = R ? parsec_list_item_ring_merge(R, ring) : ring;
        emit("-"); with_ring = 1;
    } else if ((!strcmp(o, "xf") || !strcmp(o, "xb")) && n == 3) {
        if (R) {
            if (o[1] == 'f') { if (lk) parsec_list_chain_front(l, R); else parsec_list_nolock_chain_front(l, R); }
            else { if (lk) parsec_list_chain_back(l, R); else parsec_list_nolock_chain_back(l, R); }
        }
        R = NULL; emit("-"); with_ring = 1;
    } else if (!strcmp(o, "xs") && n == 3) {
        if (lk) parsec_list_chain_sorted(l, R, OFF); else parsec_list_nolock_chain_sorted(l, R, OFF);
        R = NULL; emit("-"); with_ring = 1;
    } else return -1;
    emit(" "); show_list(l);
    if (with_ring) show_ring();
    return 0;
}

static void run_case(char *line) {
    static char *ops[4096]; int nops = 0;
    for (char *s = strtok(line, ";"); s && nops < 4096; s = strtok(NULL, ";")) ops[nops++] = s;
    PARSEC_OBJ_CONSTRUCT(&lists[0], parsec_list_t);
    PARSEC_OBJ_CONSTRUCT(&lists[1], parsec_dequeue_t);
    for (int i = 0; i < nops; i++) {
        static char *tok[2100]; int nt = 0;
        for (char *s = strtok(ops[i], " "); s && nt < 2100; s = strtok(NULL, " ")) tok[nt++] = s;
        if (i) emit(" | ");
        if (nt == 0 || do_op(tok, nt)) { olen = 0; emit("<bad case>"); break; }
    }
    emit("\n");
}

static sigjmp_buf crash_jmp;
static void on_signal(int sig) { siglongjmp(crash_jmp, sig); }

int main(int argc, char **argv) {
    FILE *f = hc_open(argc, argv); char *l;
    struct sigaction sa; memset(&sa, 0, sizeof sa); sa.sa_handler = on_signal; sigemptyset(&sa.sa_mask);
    sigaction(SIGSEGV, &sa, NULL); sigaction(SIGBUS, &sa, NULL); sigaction(SIGVTALRM, &sa, NULL);
    int ntimeouts = 0;
    while ((l = hc_next(f))) {
        /* all state is static and rebuilt per case (no allocation in the list code), so a case that
         * crashes or loops on a corrupted structure is abandoned and the next one starts clean.  A case
         * takes microseconds: 200 ms of CPU means a loop; after 25 of them the rest is not run. */
        if (ntimeouts >= 25) { printf("<not run: too many cases looped>\n"); continue; }
        npool = 0; R = NULL; olen = 0; memset(byid, 0, sizeof byid);
        struct itimerval on = { {0, 0}, {0, 200000} }, off = { {0, 0}, {0, 0} };
        int sig = sigsetjmp(crash_jmp, 1);
        if (sig == 0) { setitimer(ITIMER_VIRTUAL, &on, NULL); run_case(l); setitimer(ITIMER_VIRTUAL, &off, NULL); fwrite(out, 1, olen, stdout); }
        else { setitimer(ITIMER_VIRTUAL, &off, NULL); if (sig == SIGVTALRM) ntimeouts++; printf("<crash signal %d>\n", sig); }
    }
    return 0;
}
