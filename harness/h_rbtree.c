/* C36 harness: drives the real red-black tree of libparsec (parsec/class/parsec_rbtree.c,
 * linked from the library rebuilt from the repository on every run).
 *
 * One case = one line = a history, operations separated by ',':
 *     i ID KEY   parsec_rbtree_insert of node ID with key KEY   (skipped if ID is linked)
 *     r ID       parsec_rbtree_remove of node ID                (skipped if ID is not linked)
 *     u ID KEY   parsec_rbtree_update_node(node ID, KEY)        (skipped if ID is not linked)
 *     f KEY      parsec_rbtree_find
 *     l KEY      parsec_rbtree_find_or_larger
 *     m          parsec_rbtree_minimum(tree, tree->root)
 *     e          parsec_rbtree_foreach (visit order)
 * Observation: for every operation "<result> @ <dump>", joined by " | ".  The dump
 * is the whole structure in pre-order, "(C id:key LEFT RIGHT)" with C in {R,B}
 * and "." for the sentinel; "=" stands for "same text as the previous dump".  While dumping, the harness checks what the dump
 * cannot show: child->parent == node for every real child, root->parent == nil,
 * the sentinel is still black, no node is visited twice, the nodes reached are
 * exactly the nodes the harness linked; a failed check is printed into the dump
 * as "!what" (the model never prints that, so it is a disagreement and the
 * oracle rejects it).
 * The cases run in a forked worker (a corrupted tree may crash or loop), see main. */
#include "parsec/parsec_config.h"
#include "parsec/class/parsec_rbtree.h"
#include "parsec/constants.h"
#include "hcommon.h"
#include <unistd.h>
#include <signal.h>
#include <sys/wait.h>
#include <stddef.h>

#define MAXID 1024
typedef struct hnode_s {
    parsec_rbtree_node_t super;
    int pad;            /* the key is not the first field after the node: comp_offset is exercised */
    int key;
    int id;
    int linked;
    int seen;
    int used;
} hnode_t;

static hnode_t pool[MAXID];
static parsec_rbtree_t tree;
static FILE *out;
static int nlinked;

#define L(n) ((parsec_rbtree_node_t *)(n)->super.list_prev)
#define R(n) ((parsec_rbtree_node_t *)(n)->super.list_next)

static int visited, corrupt, stamp;
static void dump_rec(parsec_rbtree_node_t *n, int depth) {
    if (n == tree.nil) { fputc('.', out); return; }
    hnode_t *h = (hnode_t *)n;
    if (h < pool || h >= pool + MAXID || depth > 200 || visited > MAXID) { fputs("!wild", out); corrupt = 1; return; }
    if (h->seen == stamp) { fprintf(out, "!again%d", h->id); corrupt = 1; return; }
    h->seen = stamp; visited++;
    fprintf(out, "(%c %d:%d", n->color == PARSEC_RBTREE_RED ? 'R' : (n->color == PARSEC_RBTREE_BLACK ? 'B' : '?'), h->id, h->key);
    if (!h->linked) fputs("!unlinked", out);
    if (L(n) != tree.nil && L(n)->parent != n) fputs("!lparent", out);
    if (R(n) != tree.nil && R(n)->parent != n) fputs("!rparent", out);
    fputc(' ', out); dump_rec(L(n), depth + 1);
    fputc(' ', out); dump_rec(R(n), depth + 1);
    fputc(')', out);
}
/* prints the dump, or "=" when it is the same text as after the previous operation */
static char *prev_dump;
static void dump(void) {
    FILE *real = out; char *buf = NULL; size_t len = 0;
    out = open_memstream(&buf, &len);
    stamp++; visited = 0; corrupt = 0;
    if (tree.nil != &tree.nil_element) fputs("!nilmoved", out);
    if (tree.nil->color != PARSEC_RBTREE_BLACK) fputs("!nilred", out);
    if (tree.root != tree.nil && tree.root->parent != tree.nil) fputs("!rootparent", out);
    dump_rec(tree.root, 0);
    if (!corrupt && visited != nlinked) fprintf(out, "!count%d/%d", visited, nlinked);
    fclose(out); out = real;
    if (prev_dump && !strcmp(prev_dump, buf)) { fputc('=', out); free(buf); }
    else { fputs(buf, out); free(prev_dump); prev_dump = buf; }
}

static void visit(parsec_rbtree_node_t *n, void *data) {
    hnode_t *h = (hnode_t *)n; int *cnt = (int *)data;
    if (++*cnt > 2 * MAXID) { fflush(out); _exit(3); }
    fprintf(out, " %d:%d", h->id, h->key);
}
static void pnode(parsec_rbtree_node_t *n) {
    if (NULL == n) { fputc('-', out); return; }
    hnode_t *h = (hnode_t *)n;
    if (n == tree.nil) { fputs("nil", out); return; }
    if (h < pool || h >= pool + MAXID) { fputs("!wild", out); return; }
    fprintf(out, "%d:%d", h->id, h->key);
}

static void run_case(char *line) {
    char *save = NULL; int first = 1;
    parsec_rbtree_init(&tree, offsetof(hnode_t, key));
    nlinked = 0; free(prev_dump); prev_dump = strdup(".");
    for (int i = 0; i < MAXID; i++) {       /* fresh nodes for every case */
        if (pool[i].used) PARSEC_OBJ_DESTRUCT(&pool[i].super);
        pool[i].id = i; pool[i].linked = 0; pool[i].key = 0; pool[i].used = 0; pool[i].seen = 0;
    }
    for (char *tok = strtok_r(line, ",", &save); tok; tok = strtok_r(NULL, ",", &save)) {
        while (*tok == ' ') tok++;
        char o = tok[0]; char *p = tok + 1; long v[2]; int k = hc_ints(&p, v, 2);
        if (!first) fputs(" | ", out);
        first = 0;
        if (o == 'i' && k == 2 && v[0] >= 0 && v[0] < MAXID) {
            hnode_t *h = &pool[v[0]];
            if (h->linked) fputs("skip", out);
            else { if (!h->used) { PARSEC_OBJ_CONSTRUCT(&h->super, parsec_rbtree_node_t); h->used = 1; }
                   h->key = (int)v[1]; h->linked = 1; nlinked++; parsec_rbtree_insert(&tree, &h->super); fputs("ok", out); }
        } else if (o == 'r' && k == 1 && v[0] >= 0 && v[0] < MAXID) {
            hnode_t *h = &pool[v[0]];
            if (!h->linked) fputs("skip", out);
            else { parsec_rbtree_remove(&tree, &h->super); h->linked = 0; nlinked--; fputs("ok", out); }
        } else if (o == 'u' && k == 2 && v[0] >= 0 && v[0] < MAXID) {
            hnode_t *h = &pool[v[0]];
            if (!h->linked) fputs("skip", out);
            else {
                int rc = parsec_rbtree_update_node(&tree, &h->super, (int)v[1]);
                if (rc == PARSEC_SUCCESS) fputs("ok", out);
                else if (rc == PARSEC_ERR_EXISTS) fputs("exists", out);
                else fprintf(out, "rc%d", rc);
            }
        } else if (o == 'f' && k == 1) {
            pnode(parsec_rbtree_find(&tree, (int)v[0]));
        } else if (o == 'l' && k == 1) {
            pnode(parsec_rbtree_find_or_larger(&tree, (int)v[0]));
        } else if (o == 'm' && k == 0) {
            if (tree.root == tree.nil) fputc('-', out);
            else pnode(parsec_rbtree_minimum(&tree, tree.root));
        } else if (o == 'e' && k == 0) {
            int cnt = 0;
            fputs("each", out);
            parsec_rbtree_foreach(&tree, visit, &cnt);
        } else fputs("<bad op>", out);
        fputs(" @ ", out);
        dump();
        if (corrupt) break;      /* do not keep operating on a structure that is no longer a tree */
    }
    if (first) fputs("<empty>", out);
    parsec_rbtree_fini(&tree);
}

/* The cases run in a forked worker that reports its progress through a shared counter; when the
 * worker dies (a corrupted tree may crash or loop: alarm), the parent prints a crash line for the
 * case in progress and starts a new worker at the next case. */
#include <sys/mman.h>
int main(int argc, char **argv) {
    FILE *f = hc_open(argc, argv); char *l;
    char **cases = NULL; size_t ncases = 0, cap = 0;
    while ((l = hc_next(f))) {
        if (ncases == cap) { cap = cap ? 2 * cap : 1024; cases = realloc(cases, cap * sizeof(char *)); }
        cases[ncases++] = strdup(l);
    }
    volatile size_t *done = mmap(NULL, sizeof(size_t), PROT_READ | PROT_WRITE, MAP_SHARED | MAP_ANONYMOUS, -1, 0);
    if (done == MAP_FAILED) { perror("mmap"); return 2; }
    *done = 0;
    int crashes = 0;
    while (*done < ncases) {
        if (crashes >= 12) {        /* a broken tree: do not spend the time budget on hangs */
            for (size_t i = *done; i < ncases; i++) printf("<skipped after %d crashes>\n", crashes);
            break;
        }
        fflush(stdout);
        pid_t pid = fork();
        if (pid == 0) {
            for (size_t i = *done; i < ncases; i++) {
                char *buf = NULL; size_t len = 0;
                hc_alarm(3);
                out = open_memstream(&buf, &len);
                run_case(cases[i]);
                fclose(out);
                fwrite(buf, 1, len, stdout); fputc('\n', stdout); fflush(stdout);
                free(buf);
                *done = i + 1;
            }
            _exit(0);
        }
        int st = 0;
        if (pid < 0 || waitpid(pid, &st, 0) < 0) { printf("<fork failed>\n"); return 2; }
        if (*done < ncases) {
            if (WIFSIGNALED(st)) printf("<crash signal %d>\n", WTERMSIG(st));
            else printf("<crash exit %d>\n", WIFEXITED(st) ? WEXITSTATUS(st) : -1);
            *done = *done + 1; crashes++;
        }
    }
    return 0;
}
