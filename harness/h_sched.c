/* C08 / C09 harness: drives the scheduler module that parsec_init installed.
 *
 *   h_sched <casefile> <module> <nstreams>
 *
 * One process = one (module, stream count) group of cases.  parsec_init is
 * given `--mca mca_sched <module>`; it installs the module and creates the
 * execution streams (flow_init of every stream has run when it returns).  The
 * context is never started: the worker threads stay parked, and the main thread
 * calls the installed module's schedule / select function pointers (and
 * __parsec_schedule_vp of scheduling.c) on behalf of
 * context->virtual_processes[0]->execution_streams[i].
 *
 * First output line: the configuration of the hierarchical buffers that the
 * module's flow_init built from hwloc (sizes, parents, per-stream task_queue and
 * hierarch_queues); the model takes it as its configuration.
 *     T <n> ; <size>.. ; <parent or -1>.. ; <tq>.. ; <c,c,c>..
 * Then one line per case.  Case syntax (same as ocaml/d_sched.ml):
 *     <module> <n> | op | op ...
 *     S es d task..   module.schedule(es, ring, d)      task = id:prio:tag:hi:rand
 *     V es d task..   __parsec_schedule_vp(es or NULL when es = -1, {ring}, d)
 *     L es            module.select(es, &dist)
 *     N es            __parsec_get_next_task(es)   (static inline in scheduling.c: replicated below)
 *     F es            __parsec_schedule_flush_private(es)
 *     D               rounds of N by streams 0..n-1 until a whole round returns nothing
 * Observation: one token per L/N (`id` or -1), `[es:id ...]` per D, then `| left k`
 * with k = tasks handed in minus tasks handed out.
 *
 * rand() is defined here (the module `rnd` draws one number per task with rand());
 * it returns the numbers given in the case, in order. */
#include <mpi.h>
#include "parsec/parsec_config.h"
#include "parsec/parsec_internal.h"
#include "parsec/runtime.h"
#include "parsec/execution_stream.h"
#include "parsec/scheduling.h"
#include "parsec/mca/sched/sched.h"
#include "parsec/class/dequeue.h"
#include "parsec/mca/sched/sched_local_queues_utils.h"
#include "hcommon.h"

#define MAXR 4096
static int rq[MAXR], rq_n, rq_pos;
int rand(void) { return rq_pos < rq_n ? rq[rq_pos++] : 0; }

typedef struct { parsec_task_t t; long id; long caseno; } htask_t;
static parsec_task_class_t *tc[2];
static parsec_taskpool_t *dummy_tp;
static long caseno;
#define MAXT 65536
static htask_t *live[MAXT]; static int nlive;

static htask_t *mk_task(long id, int prio, long tag, int hi) {
    htask_t *h = NULL;
    if (posix_memalign((void **)&h, 64, sizeof(htask_t))) abort();
    memset(h, 0, sizeof(htask_t));
    PARSEC_OBJ_CONSTRUCT(&h->t.super, parsec_list_item_t);
    PARSEC_LIST_ITEM_SINGLETON(&h->t.super);
    h->t.priority = prio;
    h->t.task_class = tc[hi ? 1 : 0];
    h->t.taskpool = dummy_tp;
    h->t.data[0].data_in = tag ? (parsec_data_copy_t *)(uintptr_t)(0x100000 + 64 * tag) : NULL;
    h->id = id; h->caseno = caseno;
    if (nlive < MAXT) live[nlive++] = h;
    return h;
}
/* parse "id:prio:tag:hi:rand" tokens into a ring; returns the ring head */
static parsec_task_t *parse_ring(char *p, int *count) {
    parsec_task_t *ring = NULL; *count = 0; rq_n = rq_pos = 0;
    for (;;) {
        while (*p == ' ') p++;
        if (!*p) break;
        long v[5] = {0, 0, 0, 0, 0}; int k = 0; char *e;
        for (;;) { v[k < 5 ? k : 4] = strtol(p, &e, 10); k++; p = e; if (*p == ':') p++; else break; }
        htask_t *h = mk_task(v[0], (int)v[1], v[2], (int)v[3]);
        if (rq_n < MAXR) rq[rq_n++] = (int)v[4];
        if (!ring) ring = &h->t; else parsec_list_item_ring_push(&ring->super, &h->t.super);
        (*count)++;
    }
    return ring;
}
static long tid_of(parsec_task_t *t) {
    htask_t *h = (htask_t *)t;
    for (int i = 0; i < nlive; i++) if (live[i] == h) return h->caseno == caseno ? h->id : 1000000 + h->id;
    return 2000000;                       /* a pointer that was never handed in */
}
/* scheduling.c: static inline __parsec_get_next_task */
static parsec_task_t *get_next_task(parsec_execution_stream_t *es, int *distance) {
    parsec_task_t *task;
    if (NULL == (task = es->next_task)) task = parsec_current_scheduler->module.select(es, distance);
    else { es->next_task = NULL; *distance = 1; }
    return task;
}

static int is_hb(const char *m) { return !strcmp(m, "lfq") || !strcmp(m, "lhq") || !strcmp(m, "pbq") || !strcmp(m, "ltq"); }

static void print_topo(const char *mod, parsec_vp_t *vp) {
    int n = vp->nb_cores;
    printf("T %d ;", n);
    if (!is_hb(mod)) { printf(" ; ; ;\n"); return; }
    parsec_hbbuffer_t *bufs[4096]; int nb = 0;
#define IDX(ptr) ({ int _k = -1; for (int _i = 0; _i < nb; _i++) if (bufs[_i] == (ptr)) _k = _i; _k; })
#define ADD(ptr) do { if (IDX(ptr) < 0 && nb < 4096) bufs[nb++] = (ptr); } while (0)
    for (int i = 0; i < n; i++) {
        parsec_mca_sched_local_queues_scheduler_object_t *o = PARSEC_MCA_SCHED_LOCAL_QUEUES_OBJECT(vp->execution_streams[i]);
        ADD(o->task_queue);
        for (int k = 0; k < o->nb_hierarch_queues; k++) ADD(o->hierarch_queues[k]);
    }
    /* parents: a scheduler object (system queue) or another buffer */
    for (int b = 0; b < nb; b++) {
        void *ps = bufs[b]->parent_store; int sys = 0;
        for (int i = 0; i < n; i++) if (ps == vp->execution_streams[i]->scheduler_object) sys = 1;
        if (!sys) ADD((parsec_hbbuffer_t *)ps);
    }
    for (int b = 0; b < nb; b++) printf(" %zu", bufs[b]->size);
    printf(" ;");
    for (int b = 0; b < nb; b++) {
        void *ps = bufs[b]->parent_store; int sys = 0;
        for (int i = 0; i < n; i++) if (ps == vp->execution_streams[i]->scheduler_object) sys = 1;
        printf(" %d", sys ? -1 : IDX((parsec_hbbuffer_t *)ps));
    }
    printf(" ;");
    for (int i = 0; i < n; i++) printf(" %d", IDX(PARSEC_MCA_SCHED_LOCAL_QUEUES_OBJECT(vp->execution_streams[i])->task_queue));
    printf(" ;");
    for (int i = 0; i < n; i++) {
        parsec_mca_sched_local_queues_scheduler_object_t *o = PARSEC_MCA_SCHED_LOCAL_QUEUES_OBJECT(vp->execution_streams[i]);
        printf(" ");
        for (int k = 0; k < o->nb_hierarch_queues; k++) printf("%s%d", k ? "," : "", IDX(o->hierarch_queues[k]));
    }
    printf("\n");
}

int main(int argc, char **argv) {
    if (argc < 4) { fprintf(stderr, "usage: %s casefile module nstreams\n", argv[0]); return 2; }
    const char *mod = argv[2]; int n = atoi(argv[3]);
    int prov; MPI_Init_thread(&argc, &argv, MPI_THREAD_SERIALIZED, &prov);
    char *pargv[] = { argv[0], "--mca", "mca_sched", (char *)mod, NULL };
    int pargc = 4; char **pa = pargv;
    parsec_context_t *ctx = parsec_init(n, &pargc, &pa);
    if (!ctx || !parsec_current_scheduler ||
        strcmp(parsec_current_scheduler->component->base_version.mca_component_name, mod)) {
        printf("<scheduler %s not installed>\n", mod); fflush(stdout); _exit(3);
    }
    parsec_vp_t *vp = ctx->virtual_processes[0];
    n = vp->nb_cores;
    for (int k = 0; k < 2; k++) {
        tc[k] = calloc(1, sizeof(parsec_task_class_t));
        tc[k]->name = "T"; tc[k]->nb_flows = 1; tc[k]->flags = k ? PARSEC_HIGH_PRIORITY_TASK : 0;
    }
    dummy_tp = calloc(1, sizeof(parsec_taskpool_t));
    dummy_tp->context = ctx;
    print_topo(mod, vp);
    fflush(stdout);

    FILE *f = hc_open(argc, argv); char *l;
    while ((l = hc_next(f))) {
        caseno++;
        long in = 0, out = 0;
        char *bar = strchr(l, '|');
        char *p = bar ? bar + 1 : l + strlen(l);
        int first = 1;
        while (p && *p) {
            char *nb = strchr(p, '|'); if (nb) *nb = 0;
            while (*p == ' ') p++;
            char kind = *p; if (kind) p++;
#define ES(i) vp->execution_streams[((i) >= 0 && (i) < n) ? (i) : 0]
            if (kind == 'S' || kind == 'V') {
                char *e; long es = strtol(p, &e, 10); p = e; long d = strtol(p, &e, 10); p = e;
                int cnt; parsec_task_t *ring = parse_ring(p, &cnt);
                if (ring) {
                    in += cnt;
                    if (kind == 'S') parsec_current_scheduler->module.schedule(ES(es), ring, (int32_t)d);
                    else { parsec_task_t *rings[1] = { ring }; __parsec_schedule_vp(es < 0 ? NULL : ES(es), rings, (int32_t)d); }
                }
            } else if (kind == 'F') {
                long es = strtol(p, NULL, 10);
                rq_n = rq_pos = 0;          /* rnd draws one number for the flushed task: 0, as in the model */
                __parsec_schedule_flush_private(ES(es));
            } else if (kind == 'L' || kind == 'N') {
                long es = strtol(p, NULL, 10); int dist = 0;
                parsec_task_t *t = (kind == 'L') ? parsec_current_scheduler->module.select(ES(es), &dist)
                                                 : get_next_task(ES(es), &dist);
                if (t) { out++; PARSEC_LIST_ITEM_SINGLETON(&t->super); }
                printf("%s%ld", first ? "" : " ", t ? tid_of(t) : -1L); first = 0;
            } else if (kind == 'D') {
                printf("%s[", first ? "" : " "); first = 0;
                long cap = in - out + 2, got = 1; int sp = 0;
                while (got && cap-- > 0) {
                    got = 0;
                    for (int i = 0; i < n; i++) {
                        int dist = 0; parsec_task_t *t = get_next_task(vp->execution_streams[i], &dist);
                        if (t) { got++; out++; PARSEC_LIST_ITEM_SINGLETON(&t->super);
                                 printf("%s%d:%ld", sp ? " " : "", i, tid_of(t)); sp = 1; }
                    }
                }
                printf("]");
            }
            p = nb ? nb + 1 : NULL;
        }
        printf("%s| left %ld\n", first ? "" : " ", in - out);
        fflush(stdout);
        /* leave the module empty for the next case (not observed) */
        for (long cap = in - out + 2, got = 1; got && cap > 0; cap--) {
            got = 0;
            for (int i = 0; i < n; i++) { int dist; if (get_next_task(vp->execution_streams[i], &dist)) got++; }
        }
        if (in == out) { for (int i = 0; i < nlive; i++) free(live[i]); nlive = 0; }
        else nlive = nlive;     /* something is still inside (or lost): keep the memory */
        if (nlive > MAXT - 8192) nlive = 0;
    }
    fflush(stdout);
    _exit(0);
}
