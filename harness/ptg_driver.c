/* ptg_driver.c — generic main of a generated PTG test program.
 *
 * Linked with the C file parsec-ptgpp produced from a JDF of tools/jdfgen.py
 * (which provides ptg_case_new/ptg_case_free/ptg_case_ndata) and libparsec.
 *
 *   ptg_driver [--again SEED MAX] [--reps R] [--slow US CLASS] --cfg CORES [parsec options, e.g. --mca mca_sched lfq] [--cfg …]…
 *
 * It initialises MPI and PaRSEC, builds a tiny in-memory data collection
 * (ptg_case_ndata elements of PTG_RT_ELT_BYTES bytes, all on rank 0), runs the
 * generated taskpool and prints the body log, sorted:
 *
 *   I <class> <again:0|1> P <params…> ; L <locals…> ; S <begin> <end> ; R <flow>=<v>… ; W <flow>=<v>… ; K <key> ; PR <priority> ; KP <key_print string>
 *
 * one line per body invocation, then (generated file compiled with -DPTG_RT_TRACE_STARTUP) "SU <class> P <params>"
 * for every startup task in creation order, then "NBTASKS <n>" (what the taskpool announced to
 * termination detection just after startup is not observable afterwards; we print
 * the number of logged completed invocations instead), then the final content of
 * the collection "D <v0> <v1> …" and "END rc=0".  K/KP are computed after the run
 * by calling the GENERATED make_key / key_print of the task class through
 * tp->task_classes_array[] on the logged locals.
 */
#ifndef _GNU_SOURCE
#define _GNU_SOURCE
#endif
#include <stdio.h>
#include <pthread.h>
#include <unistd.h>
#include <signal.h>
#include <stdlib.h>
#include <string.h>
#include <stdarg.h>
#include <inttypes.h>
#include <mpi.h>
#include "ptg_rt.h"
#include "parsec/runtime.h"
#include "parsec/data_internal.h"
#include "parsec/vpmap.h"
#include "parsec/sys/atomic.h"

/* ------------------------------------------------------------------ log */
typedef struct {
    const parsec_task_class_t *tc;
    int32_t  locals[MAX_LOCAL_COUNT];
    int64_t  begin, end;
    int      again;
    int32_t  prio;           /* task->priority at this invocation (C16: demotion on AGAIN) */
    uint32_t rmask, wmask;
    int64_t  rd[PTG_RT_MAXFLOWS], wr[PTG_RT_MAXFLOWS];
} ptg_entry_t;

#define PTG_MAXLOG (1 << 16)
static ptg_entry_t ptg_log[PTG_MAXLOG];
static volatile int32_t ptg_nlog = 0;
static volatile int64_t ptg_clock = 0;
static __thread ptg_entry_t *ptg_cur = NULL;

/* seeded AGAIN: instance i returns AGAIN (hash(seed, class, locals) % (max+1)) times */
static uint64_t ptg_again_seed = 0;
static int      ptg_again_max = 0;
typedef struct { const parsec_task_class_t *tc; int32_t locals[MAX_LOCAL_COUNT]; int left; } ptg_again_t;
static ptg_again_t ptg_again_tab[PTG_MAXLOG];
static int ptg_again_n = 0;
static pthread_mutex_t ptg_again_lock = PTHREAD_MUTEX_INITIALIZER;

/* --slow US CLASS: bodies of CLASS sleep US microseconds (keeps their inputs alive: a task that is wrongly
 * run a second time then finds its data and shows up in the log instead of crashing in prepare_input) */
static int  ptg_slow_us = 0;
static char ptg_slow_class[64] = "";

static uint64_t mix64(uint64_t z) {
    z += 0x9E3779B97F4A7C15ULL;
    z = (z ^ (z >> 30)) * 0xBF58476D1CE4E5B9ULL;
    z = (z ^ (z >> 27)) * 0x94D049BB133111EBULL;
    return z ^ (z >> 31);
}
static uint64_t hash_instance(uint64_t seed, const parsec_task_class_t *tc, const int32_t *locals) {
    uint64_t h = mix64(seed);
    for (const char *p = tc->name; *p; p++) h = mix64(h ^ (uint64_t)(unsigned char)*p);
    for (int i = 0; i < tc->nb_locals; i++) h = mix64(h ^ (uint64_t)(uint32_t)locals[i]);
    return h;
}

static int ptg_again_decide(const parsec_task_class_t *tc, const int32_t *locals) {
    int r = 0, i;
    if (ptg_again_max <= 0) return 0;
    pthread_mutex_lock(&ptg_again_lock);
    for (i = 0; i < ptg_again_n; i++)
        if (ptg_again_tab[i].tc == tc && 0 == memcmp(ptg_again_tab[i].locals, locals, tc->nb_locals * sizeof(int32_t)))
            break;
    if (i == ptg_again_n && ptg_again_n < PTG_MAXLOG) {
        ptg_again_tab[i].tc = tc;
        memcpy(ptg_again_tab[i].locals, locals, tc->nb_locals * sizeof(int32_t));
        ptg_again_tab[i].left = (int)(hash_instance(ptg_again_seed, tc, locals) % (uint64_t)(ptg_again_max + 1));
        ptg_again_n++;
    }
    if (i < ptg_again_n && ptg_again_tab[i].left > 0) { ptg_again_tab[i].left--; r = 1; }
    pthread_mutex_unlock(&ptg_again_lock);
    return r;
}

int ptg_rt_begin(parsec_task_t *t) {
    int32_t idx = parsec_atomic_fetch_inc_int32(&ptg_nlog);
    if (idx >= PTG_MAXLOG) { fprintf(stderr, "ptg_rt: log overflow\n"); abort(); }
    ptg_entry_t *e = &ptg_log[idx];
    e->tc = t->task_class;
    for (int i = 0; i < t->task_class->nb_locals && i < MAX_LOCAL_COUNT; i++) e->locals[i] = t->locals[i].value;
    e->rmask = e->wmask = 0;
    e->prio = t->priority;
    e->end = -1;
    e->begin = parsec_atomic_fetch_inc_int64(&ptg_clock);
    e->again = ptg_again_decide(t->task_class, e->locals);
    ptg_cur = e;
    if (ptg_slow_us > 0 && 0 == strcmp(ptg_slow_class, t->task_class->name)) usleep((useconds_t)ptg_slow_us);
    if (e->again) { e->end = parsec_atomic_fetch_inc_int64(&ptg_clock); ptg_cur = NULL; return 1; }
    return 0;
}
void ptg_rt_end(parsec_task_t *t) {
    (void)t;
    if (ptg_cur) { ptg_cur->end = parsec_atomic_fetch_inc_int64(&ptg_clock); ptg_cur = NULL; }
}
#define PTG_NULL_VALUE ((int64_t)-1)
void ptg_rt_read(parsec_task_t *t, int flow, const void *ptr) {
    (void)t;
    if (!ptg_cur || flow < 0 || flow >= PTG_RT_MAXFLOWS) return;
    ptg_cur->rmask |= 1u << flow;
    ptg_cur->rd[flow] = ptr ? *(const int64_t *)ptr : PTG_NULL_VALUE;
}
void ptg_rt_write(parsec_task_t *t, int flow, void *ptr) {
    if (!ptg_cur || flow < 0 || flow >= PTG_RT_MAXFLOWS || !ptr) return;
    /* value written = hash of (class, locals, flow, values read so far in this invocation) */
    uint64_t h = hash_instance(0x5eed, t->task_class, ptg_cur->locals);
    h = mix64(h ^ (uint64_t)flow);
    for (int i = 0; i < PTG_RT_MAXFLOWS; i++)
        if (ptg_cur->rmask & (1u << i)) h = mix64(h ^ (uint64_t)ptg_cur->rd[i] ^ ((uint64_t)i << 56));
    int64_t v = (int64_t)(h >> 3);          /* 61 bits, non negative */
    *(int64_t *)ptr = v;
    ptg_cur->wmask |= 1u << flow;
    ptg_cur->wr[flow] = v;
}

/* C16: startup tasks in creation order (see PTG_RT_TRACE_STARTUP in ptg_rt.h) */
typedef struct { const parsec_task_class_t *tc; int32_t locals[MAX_LOCAL_COUNT]; } ptg_su_t;
static ptg_su_t ptg_su[PTG_MAXLOG];
static volatile int32_t ptg_nsu = 0;
void ptg_rt_startup_mark(parsec_task_t *t) {
    int32_t idx = parsec_atomic_fetch_inc_int32(&ptg_nsu);
    if (idx >= PTG_MAXLOG) return;
    ptg_su[idx].tc = t->task_class;
    for (int i = 0; i < t->task_class->nb_locals && i < MAX_LOCAL_COUNT; i++) ptg_su[idx].locals[i] = t->locals[i].value;
}

static parsec_datatype_t ptg_elt_dtt;
static int ptg_elt_dtt_ready = 0;
parsec_datatype_t ptg_rt_elt_type(void) {
    if (!ptg_elt_dtt_ready) { parsec_type_create_contiguous(PTG_RT_ELT_BYTES, parsec_datatype_uint8_t, &ptg_elt_dtt); ptg_elt_dtt_ready = 1; }
    return ptg_elt_dtt;
}

/* --------------------------------------------------- data collection */
typedef struct {
    parsec_data_collection_t super;
    int            n;
    parsec_data_t **holders;
    char          *mem;
    volatile int32_t out_of_range;
} ptg_dc_t;

static int dc_index(ptg_dc_t *d, int k) {
    if (k < 0 || k >= d->n) { d->out_of_range++; k = ((k % d->n) + d->n) % d->n; }
    return k;
}
static uint32_t dc_rank_of(parsec_data_collection_t *desc, ...) { (void)desc; return 0; }
/* virtual process of D(k): k mod nb_vp.  With the default (flat) map there is one VP and this is 0 as before;
 * C16 runs some configurations with several VPs (vpmap=hwloc on a synthetic topology) and classes placed on
 * `: D(<first parameter>)`, so that instances are spread over the VPs. */
static int32_t dc_vp_of_int(int k) { int n = parsec_vpmap_get_nb_vp(); if (n <= 1) return 0; return ((k % n) + n) % n; }
static int32_t  dc_vpid_of(parsec_data_collection_t *desc, ...) {
    va_list ap; va_start(ap, desc); int k = va_arg(ap, int); va_end(ap);
    (void)desc; return dc_vp_of_int(k);
}
static parsec_data_key_t dc_data_key(parsec_data_collection_t *desc, ...) {
    va_list ap; va_start(ap, desc); int k = va_arg(ap, int); va_end(ap);
    return (parsec_data_key_t)dc_index((ptg_dc_t *)desc, k);
}
static uint32_t dc_rank_of_key(parsec_data_collection_t *desc, parsec_data_key_t key) { (void)desc; (void)key; return 0; }
static int32_t  dc_vpid_of_key(parsec_data_collection_t *desc, parsec_data_key_t key) { (void)desc; return dc_vp_of_int((int)key); }
static parsec_data_t *dc_data_of_key(parsec_data_collection_t *desc, parsec_data_key_t key) {
    ptg_dc_t *d = (ptg_dc_t *)desc;
    int k = dc_index(d, (int)key);
    return parsec_data_create(&d->holders[k], desc, (parsec_data_key_t)k, d->mem + (size_t)k * PTG_RT_ELT_BYTES, PTG_RT_ELT_BYTES, 0);
}
static parsec_data_t *dc_data_of(parsec_data_collection_t *desc, ...) {
    va_list ap; va_start(ap, desc); int k = va_arg(ap, int); va_end(ap);
    return dc_data_of_key(desc, (parsec_data_key_t)dc_index((ptg_dc_t *)desc, k));
}
static ptg_dc_t *dc_create(int n) {
    ptg_dc_t *d = (ptg_dc_t *)calloc(1, sizeof(ptg_dc_t));
    parsec_data_collection_init(&d->super, 1, 0);
    d->n = n < 1 ? 1 : n;
    d->holders = (parsec_data_t **)calloc(d->n, sizeof(parsec_data_t *));
    d->mem = (char *)calloc(d->n, PTG_RT_ELT_BYTES);
    for (int k = 0; k < d->n; k++) *(int64_t *)(d->mem + (size_t)k * PTG_RT_ELT_BYTES) = 1000 + k;  /* initial content */
    d->super.rank_of = dc_rank_of;         d->super.rank_of_key = dc_rank_of_key;
    d->super.vpid_of = dc_vpid_of;         d->super.vpid_of_key = dc_vpid_of_key;
    d->super.data_of = dc_data_of;         d->super.data_of_key = dc_data_of_key;
    d->super.data_key = dc_data_key;
    parsec_type_create_contiguous(PTG_RT_ELT_BYTES, parsec_datatype_uint8_t, &d->super.default_dtt);
    return d;
}
static void dc_free(ptg_dc_t *d) {
    for (int k = 0; k < d->n; k++) if (d->holders[k]) parsec_data_destroy(d->holders[k]);
    parsec_type_free(&d->super.default_dtt);
    parsec_data_collection_destroy(&d->super);
    free(d->holders); free(d->mem); free(d);
}

/* ------------------------------------------------------------ output */
static int param_value(const ptg_entry_t *e, int i) { return e->locals[e->tc->params[i]->context_index]; }
static int cmp_entry(const void *a, const void *b) {
    const ptg_entry_t *x = (const ptg_entry_t *)a, *y = (const ptg_entry_t *)b;
    int c = strcmp(x->tc->name, y->tc->name);
    if (c) return c;
    for (int i = 0; i < x->tc->nb_parameters; i++) {
        int u = param_value(x, i), v = param_value(y, i);
        if (u != v) return u < v ? -1 : 1;
    }
    return x->begin < y->begin ? -1 : (x->begin > y->begin ? 1 : 0);
}

/* prints the sorted body log; with_keys = 0 from the crash handler (the taskpool may be unusable) */
static int print_log(parsec_taskpool_t *tp, int with_keys) {
    int n = ptg_nlog;
    if (n > PTG_MAXLOG) n = PTG_MAXLOG;
    qsort(ptg_log, n, sizeof(ptg_entry_t), cmp_entry);
    char buf[256];
    int completed = 0;
    for (int k = 0; k < n; k++) {
        const ptg_entry_t *e = &ptg_log[k];
        const parsec_task_class_t *tc = e->tc;
        if (!tc) continue;
        printf("I %s %d P", tc->name, e->again);
        for (int i = 0; i < tc->nb_parameters; i++) printf(" %d", param_value(e, i));
        printf(" ; L");
        for (int i = 0; i < tc->nb_locals; i++) printf(" %d", e->locals[i]);
        printf(" ; S %" PRId64 " %" PRId64 " ; R", e->begin, e->end);
        for (int i = 0; i < PTG_RT_MAXFLOWS; i++) if (e->rmask & (1u << i)) printf(" %d=%" PRId64, i, e->rd[i]);
        printf(" ; W");
        for (int i = 0; i < PTG_RT_MAXFLOWS; i++) if (e->wmask & (1u << i)) printf(" %d=%" PRId64, i, e->wr[i]);
        if (with_keys) {
            /* the generated key functions, reached through the taskpool as the runtime does */
            parsec_assignment_t as[MAX_LOCAL_COUNT];
            memset(as, 0, sizeof(as));
            for (int i = 0; i < tc->nb_locals; i++) as[i].value = e->locals[i];
            const parsec_task_class_t *tc2 = tp->task_classes_array[tc->task_class_id];
            parsec_key_t key = tc2->make_key(tp, as);
            buf[0] = 0;
            tc2->key_functions->key_print(buf, sizeof(buf), key, tp);
            printf(" ; K %" PRIu64 " ; PR %d ; KP %s\n", (uint64_t)key, (int)e->prio, buf);
        } else
            printf(" ; K 0 ; PR %d ; KP ?\n", (int)e->prio);
        if (!e->again) completed++;
    }
    return completed;
}

/* a crash of the runtime is an observation too: dump what the bodies logged so far (a task that was run
 * twice is in there), then report the signal.  printf in a handler is not async-signal-safe; good enough here. */
static void crash_handler(int sig) {
    static volatile int once = 0;
    if (once++) _exit(128 + sig);
    signal(sig, SIG_DFL);
    int completed = print_log(NULL, 0);
    printf("NBTASKS %d\nEND rc=signal-%d\n", completed, sig);
    fflush(stdout);
    _exit(128 + sig);
}

/* one configuration: parsec_init(cores, options) … parsec_fini; prints one block */
static int run_config(int cores, int pargc, char **pargv, int reps) {
    int rc;
    /* parsec_init consumes a slice starting with "--" */
    parsec_context_t *ctx = parsec_init(cores, &pargc, &pargv);
    if (!ctx) { printf("END rc=init-failed\n"); return 3; }

    ptg_dc_t *dc = dc_create(ptg_case_ndata);
    parsec_taskpool_t *tp = NULL;
    for (int r = 0; r < reps; r++) {          /* reps > 1: the same program several times in one context (only the last log is kept) */
        if (tp) ptg_case_free(tp);
        ptg_nlog = 0; ptg_clock = 0; ptg_again_n = 0; ptg_nsu = 0;
        tp = ptg_case_new(&dc->super);
        if (!tp) { printf("END rc=new-failed\n"); return 3; }
        rc = parsec_context_add_taskpool(ctx, tp);
        if (rc != 0) { printf("END rc=add-failed\n"); return 3; }
        rc = parsec_context_start(ctx);
        if (rc != 0) { printf("END rc=start-failed\n"); return 3; }
        rc = parsec_context_wait(ctx);
        if (rc != 0) { printf("END rc=wait-failed\n"); return 3; }
    }

    int completed = print_log(tp, 1);
    for (int k = 0; k < ptg_nsu && k < PTG_MAXLOG; k++) {      /* C16: creation order of the startup tasks (only with PTG_RT_TRACE_STARTUP) */
        const parsec_task_class_t *tc = ptg_su[k].tc;
        printf("SU %s P", tc->name);
        for (int i = 0; i < tc->nb_parameters; i++) printf(" %d", ptg_su[k].locals[tc->params[i]->context_index]);
        printf("\n");
    }
    printf("NBTASKS %d\n", completed);
    printf("NBVP %d\n", parsec_vpmap_get_nb_vp());
    printf("D");
    for (int k = 0; k < dc->n; k++) printf(" %" PRId64, *(int64_t *)(dc->mem + (size_t)k * PTG_RT_ELT_BYTES));
    printf("\nOOR %d\n", (int)dc->out_of_range);
    ptg_case_free(tp);
    dc_free(dc);
    parsec_fini(&ctx);
    printf("END rc=0\n");
    fflush(stdout);
    return 0;
}

/*   ptg_driver [--again SEED MAX] [--reps R] [--slow US CLASS] --cfg CORES [parsec options…] [--cfg CORES [parsec options…]]…
 * every --cfg starts a configuration: a separate parsec_init/parsec_fini inside one MPI_Init
 * (MPI_Init_thread dominates the cost of a run); each prints "CONFIG <i>" … "END rc=…". */
int main(int argc, char **argv) {
    int provided, reps = 1, i = 1, ncfg = 0, rc = 0;
    MPI_Init_thread(NULL, NULL, MPI_THREAD_SERIALIZED, &provided);
    signal(SIGSEGV, crash_handler); signal(SIGBUS, crash_handler); signal(SIGABRT, crash_handler); signal(SIGFPE, crash_handler);
    while (i < argc) {
        if (!strcmp(argv[i], "--again") && i + 2 < argc) { ptg_again_seed = strtoull(argv[i + 1], NULL, 10); ptg_again_max = atoi(argv[i + 2]); i += 3; }
        else if (!strcmp(argv[i], "--reps") && i + 1 < argc) { reps = atoi(argv[i + 1]); i += 2; }
        else if (!strcmp(argv[i], "--slow") && i + 2 < argc) { ptg_slow_us = atoi(argv[i + 1]); snprintf(ptg_slow_class, sizeof(ptg_slow_class), "%s", argv[i + 2]); i += 3; }
        else if (!strcmp(argv[i], "--cfg") && i + 1 < argc) {
            int cores = atoi(argv[i + 1]), j = i + 2, n = 0;
            char *pv[64];
            pv[n++] = "--";
            while (j < argc && strcmp(argv[j], "--cfg") && n < 62) pv[n++] = argv[j++];
            pv[n] = NULL;
            printf("CONFIG %d\n", ncfg++);
            fflush(stdout);
            rc |= run_config(cores, n, pv, reps);
            i = j;
        } else { fprintf(stderr, "ptg_driver: unknown argument %s\n", argv[i]); i++; }
    }
    MPI_Finalize();
    return rc;
}
