/* tsanrt.c — a minimal stand-in for the ThreadSanitizer runtime, used for the
 * "race exploration" harnesses (DESIGN.md 8.3).  A harness TU is compiled by clang with
 * -fsanitize=thread, which makes the compiler call __tsan_readN/__tsan_writeN before every plain
 * memory access and __tsan_atomicN_* for every atomic builtin; instead of linking the real
 * runtime we link this file (compiled WITHOUT instrumentation): each access to a byte range
 * registered with race_share() yields to the cosched scheduler first, so that plain reads and
 * writes of the shared objects become scheduling points without any change to the repository.
 * This is search machinery (it feeds the property oracle), not part of any proof. */
#include <stdint.h>
#include <stddef.h>
#include <string.h>
extern void cos_yield(void);
typedef unsigned __int128 u128;
#define RACE_MAXR 256
static struct { uintptr_t lo, hi; } race_r[RACE_MAXR];
static int race_n = 0;
long race_points = 0;
void race_reset(void) { race_n = 0; race_points = 0; }
void race_share(const void *p, size_t len) {
    if (race_n < RACE_MAXR) { race_r[race_n].lo = (uintptr_t)p; race_r[race_n].hi = (uintptr_t)p + len; race_n++; }
}
static inline void touch(const void *a) {
    uintptr_t x = (uintptr_t)a;
    for (int i = 0; i < race_n; i++) if (x >= race_r[i].lo && x < race_r[i].hi) { race_points++; cos_yield(); return; }
}
void __tsan_init(void) {}
void __tsan_func_entry(void *pc) { (void)pc; }
void __tsan_func_exit(void) {}
void __tsan_ignore_thread_begin(void) {}
void __tsan_ignore_thread_end(void) {}
#define RW(n) void __tsan_read##n(void *a) { touch(a); } void __tsan_write##n(void *a) { touch(a); } \
              void __tsan_unaligned_read##n(void *a) { touch(a); } void __tsan_unaligned_write##n(void *a) { touch(a); } \
              void __tsan_read##n##_pc(void *a, void *pc) { (void)pc; touch(a); } void __tsan_write##n##_pc(void *a, void *pc) { (void)pc; touch(a); }
RW(1) RW(2) RW(4) RW(8) RW(16)
void __tsan_read_range(void *a, unsigned long n) { (void)n; touch(a); }
void __tsan_write_range(void *a, unsigned long n) { (void)n; touch(a); }
void __tsan_vptr_update(void **a, void *v) { (void)v; touch(a); }
void __tsan_vptr_read(void **a) { touch(a); }
void __tsan_atomic_thread_fence(int mo) { (void)mo; __atomic_thread_fence(__ATOMIC_SEQ_CST); }
void __tsan_atomic_signal_fence(int mo) { (void)mo; }
#define AT(n, T) \
T __tsan_atomic##n##_load(const volatile T *a, int mo) { (void)mo; touch((const void *)a); return __atomic_load_n(a, __ATOMIC_SEQ_CST); } \
void __tsan_atomic##n##_store(volatile T *a, T v, int mo) { (void)mo; touch((const void *)a); __atomic_store_n(a, v, __ATOMIC_SEQ_CST); } \
T __tsan_atomic##n##_exchange(volatile T *a, T v, int mo) { (void)mo; touch((const void *)a); return __atomic_exchange_n(a, v, __ATOMIC_SEQ_CST); } \
T __tsan_atomic##n##_fetch_add(volatile T *a, T v, int mo) { (void)mo; touch((const void *)a); return __atomic_fetch_add(a, v, __ATOMIC_SEQ_CST); } \
T __tsan_atomic##n##_fetch_sub(volatile T *a, T v, int mo) { (void)mo; touch((const void *)a); return __atomic_fetch_sub(a, v, __ATOMIC_SEQ_CST); } \
T __tsan_atomic##n##_fetch_and(volatile T *a, T v, int mo) { (void)mo; touch((const void *)a); return __atomic_fetch_and(a, v, __ATOMIC_SEQ_CST); } \
T __tsan_atomic##n##_fetch_or(volatile T *a, T v, int mo) { (void)mo; touch((const void *)a); return __atomic_fetch_or(a, v, __ATOMIC_SEQ_CST); } \
T __tsan_atomic##n##_fetch_xor(volatile T *a, T v, int mo) { (void)mo; touch((const void *)a); return __atomic_fetch_xor(a, v, __ATOMIC_SEQ_CST); } \
T __tsan_atomic##n##_fetch_nand(volatile T *a, T v, int mo) { (void)mo; touch((const void *)a); return __atomic_fetch_nand(a, v, __ATOMIC_SEQ_CST); } \
int __tsan_atomic##n##_compare_exchange_strong(volatile T *a, T *c, T v, int mo, int fmo) { (void)mo; (void)fmo; touch((const void *)a); \
    return __atomic_compare_exchange_n(a, c, v, 0, __ATOMIC_SEQ_CST, __ATOMIC_SEQ_CST); } \
int __tsan_atomic##n##_compare_exchange_weak(volatile T *a, T *c, T v, int mo, int fmo) { (void)mo; (void)fmo; touch((const void *)a); \
    return __atomic_compare_exchange_n(a, c, v, 0, __ATOMIC_SEQ_CST, __ATOMIC_SEQ_CST); } \
T __tsan_atomic##n##_compare_exchange_val(volatile T *a, T c, T v, int mo, int fmo) { (void)mo; (void)fmo; touch((const void *)a); \
    __atomic_compare_exchange_n(a, &c, v, 0, __ATOMIC_SEQ_CST, __ATOMIC_SEQ_CST); return c; }
AT(8, uint8_t) AT(16, uint16_t) AT(32, uint32_t) AT(64, uint64_t)
/* 128-bit: cmpxchg16b through the __sync builtin (needs -mcx16) */
u128 __tsan_atomic128_compare_exchange_val(volatile u128 *a, u128 c, u128 v, int mo, int fmo) {
    (void)mo; (void)fmo; touch((const void *)a); return __sync_val_compare_and_swap(a, c, v); }
int __tsan_atomic128_compare_exchange_strong(volatile u128 *a, u128 *c, u128 v, int mo, int fmo) {
    (void)mo; (void)fmo; touch((const void *)a); u128 o = __sync_val_compare_and_swap(a, *c, v); if (o == *c) return 1; *c = o; return 0; }
u128 __tsan_atomic128_load(const volatile u128 *a, int mo) { (void)mo; touch((const void *)a); return __sync_val_compare_and_swap((volatile u128 *)a, 0, 0); }
u128 __tsan_atomic128_fetch_add(volatile u128 *a, u128 v, int mo) { (void)mo; touch((const void *)a); return __sync_fetch_and_add(a, v); }
