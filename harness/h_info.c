/* C41 harness (T-seq): op sequences on the real info registry / info object arrays of
 * parsec/class/info.c.  info.c is #included (with parsec_object.c, parsec_list.c,
 * parsec_rwlock.c, so no libparsec is needed) after redirecting its allocator calls to
 * wrappers that make indeterminate memory visible: malloc'ed and realloc-grown bytes are
 * filled with 0xA5 (the model's POISON), calloc'ed bytes are zero, freed bytes become 0x5A.
 *
 * case: ops separated by blanks
 *   R:n:cb:ctor:dtor  register name n; cb_data = cb; ctor 0 = no constructor, else a constructor
 *                     with cons_data = ctor (returns NULL when ctor = 1, else
 *                     0xC000000000000000 + ctor*65536 + tag of the array); dtor 0/1
 *   U:n               unregister the id that register returned for n
 *   V:i               unregister the raw id i (skipped when some name holds i)
 *   L:n               lookup by name
 *   A                 new object array (cons_obj tag = index + 1)
 *   X:a               destruct array a
 *   S:a:n:v   G:a:n   T:a:n:v:old     set / get / test_and_set on array a, id held for n (v, old in hex)
 * out : one segment per op " | " separated:   <result> <registry> <arrays>
 *   result  r=<id>  u=<id> ~[v,..] (destructor calls)  l=<id>:<cb>  a=<idx>  x  v=<hex> c<0|1> ~[..]
 *           skip (the op does not apply)   oob (held id above max_id: not executed)
 *   registry  reg[id=name,...]max=<max_id>     arrays  A<idx>(<known>:<slot>,...) or A<idx>(dead)
 *   then " | end ~[..]" = destructor calls of parsec_info_destructor (only when the listed ids are
 *   pairwise distinct: the destructor is not meant to survive duplicates), or " | <crash>"
 *   when the child running the case died (a NULL dereference in parsec_info_get is a possible
 *   observation of the unchanged code).
 *
 * T-sched case:  sched N c0:d0 .. cN-1:dN-1 | ops of thread 0 / ops of thread 1 / ... | schedule
 *   N infos are registered (info i: constructor data ci (0 none, 1 returns NULL), destructor flag di),
 *   then ONE object array is created (so no resize happens) and each thread, a cosched coroutine,
 *   runs its ops  T:i:v:old  G:i  S:i:v  on (that array, id of info i), yielding between two ops.
 *   The constructor returns a fresh object per call: 0xC000000000000000 + c*65536 + (thread+1)*256 + k
 *   (k-th call of that thread).  Scheduling points = the parsec_atomic_* operations (interpose.h).
 *   out:  t0: T=<ret> S=<old> G=<ret>,<constructed or ->,[destructed,..] ... | t1: ... | slots: s0,s1,..
 *         | steps: .. | spins: ..  [<deadlock>]
 * T-sched case on the registry:  regs n@t n@t .. | ops of thread 0 / ops of thread 1 / ... | schedule
 *   the names n@t are registered first, one after the other, and held by thread t; then each thread runs
 *   R:n (register name n)  U:n (unregister the id this thread holds for n; skip when it holds none)
 *   L:n (lookup)  on the one registry, yielding between two ops.  Scheduling points = lock / unlock of
 *   the registry's list lock (and of the ioa_list lock inside unregister).
 *   out:  init{id=name,..} | t0: R=<id|-1>{registry seen on return} U=<id|-1|skip>{..} L=<id|-1>{..} ... | t1: ...
 *         | reg[id=name,...]max=<max_id> | steps: .. | spins: ..
 *   With -DVERIF_RACE (race exploration, clang -fsanitize=thread + tsanrt.c) there is no macro
 *   interposition: every plain or atomic access to the array's slots and fields, its rw-lock, the
 *   registry's max_id, list lock and entries is a scheduling point. */
#define BUILDING_PARSEC 1
#if defined(VERIF_RACE)
/* race-exploration build: compiled by clang -fsanitize=thread and linked with tsanrt.c, every access
 * (plain or atomic) to the registered shared bytes yields; no macro interposition */
extern void race_share(const void *p, unsigned long len); extern void race_reset(void);
#else
#include "interpose.h"      /* every parsec_atomic_* RMW / lock / unlock below is a scheduling point */
#endif
#include "cosched.h"
#include <time.h>
#include "parsec/class/parsec_object.c"
#include "parsec/class/parsec_list.c"
#define nanosleep(a, b) (cos_spin(), 0)     /* wait loops of the ticket rw-lock */
#include "parsec/class/parsec_rwlock.c"
#undef nanosleep
#include "parsec/class/info.h"
#include "hcommon.h"
#include <stdarg.h>
#include <unistd.h>
#include <signal.h>
#include <sys/wait.h>

/* ---- allocator wrappers used by info.c only ------------------------------ */
#define VHDR 16
static int v_share;                       /* race build: allocations of info.c made while threads run are shared */
static void *v_malloc(size_t n) {
    unsigned char *p = malloc(n + VHDR); if (!p) abort();
    *(size_t *)p = n; memset(p + VHDR, 0xA5, n);
#if defined(VERIF_RACE)
    if (v_share) race_share(p + VHDR, n);
#endif
    return p + VHDR;
}
static void *v_calloc(size_t a, size_t b) {
    unsigned char *p = v_malloc(a * b); memset(p, 0, a * b); return p;
}
static void v_free(void *q) {
    if (!q) return;
    unsigned char *p = (unsigned char *)q - VHDR; memset(q, 0x5A, *(size_t *)p); free(p);
}
static void *v_realloc(void *q, size_t n) {
    if (!q) return v_malloc(n);
    size_t old = *(size_t *)((unsigned char *)q - VHDR);
    unsigned char *p = v_malloc(n); memcpy(p, q, old < n ? old : n); v_free(q); return p;
}
static char *v_strdup(const char *s) { char *p = v_malloc(strlen(s) + 1); strcpy(p, s); return p; }
#define malloc(n) v_malloc(n)
#define calloc(a, b) v_calloc(a, b)
#define realloc(p, n) v_realloc(p, n)
#define free(p) v_free(p)
#define strdup(s) v_strdup(s)
#include "parsec/class/info.c"
#undef malloc
#undef calloc
#undef realloc
#undef free
#undef strdup

/* ---- output: written to the parent through a pipe, flushed after every op -- */
static int out_fd = 1;
static char ob[1 << 16]; static size_t olen;
static void emit(const char *fmt, ...) {
    va_list ap; va_start(ap, fmt);
    if (olen < sizeof(ob) - 512) olen += (size_t)vsnprintf(ob + olen, sizeof(ob) - olen, fmt, ap);
    va_end(ap);
}
static void flush_out(void) {
    size_t off = 0;
    while (off < olen) { ssize_t w = write(out_fd, ob + off, olen - off); if (w <= 0) _exit(3); off += (size_t)w; }
    olen = 0;
}

/* ---- the objects of one case ------------------------------------------------ */
#define MAXN 16
#define MAXA 12
static const char *pool_names[6] = { "A", "AB", "ABC", "B", "", "A::B" };
static char name_buf[MAXN][16];
static const char *cname(long n) { return n < 6 ? pool_names[n] : name_buf[n]; }

static parsec_info_t nfo;
static parsec_info_object_array_t arrs[MAXA];
static int narr, alive[MAXA];
static int held[MAXN];                   /* id returned by register, -1 = none */
static uintptr_t ev[256]; static int nev, ctor_called;

static void *ctor_cb(void *obj, void *cons_data) {
    uintptr_t c = (uintptr_t)cons_data, tag = (uintptr_t)obj;
    ctor_called = 1;
    if (c == 1) return NULL;
    return (void *)(0xC000000000000000ULL + c * 65536ULL + tag);
}
static void dtor_cb(void *elt, void *des_data) { (void)des_data; if (nev < 256) ev[nev++] = (uintptr_t)elt; }
static void p_events(void) {
    emit("~[");
    for (int i = 0; i < nev; i++) emit("%s%lx", i ? "," : "", (unsigned long)ev[i]);
    emit("]");
}
/* registry in list order; returns 1 when the ids are pairwise distinct */
static int p_state(void) {
    int distinct = 1, k = 0, ids[64];
    emit(" reg[");
    for (parsec_list_item_t *it = PARSEC_LIST_ITERATOR_FIRST(&nfo.info_list);
         it != PARSEC_LIST_ITERATOR_END(&nfo.info_list) && k < 64; it = PARSEC_LIST_ITERATOR_NEXT(it)) {
        parsec_info_entry_t *ie = (parsec_info_entry_t *)it;
        long nm = -1;
        for (long n = 0; n < MAXN; n++) if (!strcmp(cname(n), ie->name)) { nm = n; break; }
        emit("%s%d=%ld", k ? "," : "", ie->iid, nm);
        for (int j = 0; j < k; j++) if (ids[j] == ie->iid) distinct = 0;
        ids[k++] = ie->iid;
    }
    emit("]max=%d", nfo.max_id);
    for (int a = 0; a < narr; a++) {
        if (!alive[a]) { emit(" A%d(dead)", a); continue; }
        emit(" A%d(%d:", a, arrs[a].known_infos);
        for (int i = 0; i < arrs[a].known_infos; i++)
            emit("%s%lx", i ? "," : "", (unsigned long)(uintptr_t)arrs[a].info_objects[i]);
        emit(")");
    }
    return distinct;
}

static long fld(char **p, int base) {          /* next ':'-separated field */
    char *s = *p; if (*s == ':') s++;
    char *e; unsigned long v = strtoul(s, &e, base); *p = e; return (long)v;
}

/* ---- T-sched: coroutines on one array ------------------------------------------------ */
#define SMAXT 8
#define SMAXOPS 16
typedef struct { char k; int i; uintptr_t v, old, ret, made; uintptr_t dead[4]; int ndead; } sop_t;
typedef struct { int nops, cur, nctor; sop_t ops[SMAXOPS]; } sthr_t;
static sthr_t ST[SMAXT];
static int s_ids[MAXN];
static parsec_info_object_array_t s_arr;

static void *s_ctor(void *obj, void *cons_data) {
    (void)obj; int t = cos_self(); uintptr_t c = (uintptr_t)cons_data;
    if (c == 1 || t < 0) return NULL;
    sthr_t *T = &ST[t]; int k = ++T->nctor;
    uintptr_t val = 0xC000000000000000ULL + c * 65536ULL + (uintptr_t)(t + 1) * 256ULL + (uintptr_t)k;
    T->ops[T->cur].made = val;
    return (void *)val;
}
static void s_dtor(void *elt, void *des_data) {
    (void)des_data; int t = cos_self(); if (t < 0) return;
    sop_t *o = &ST[t].ops[ST[t].cur]; if (o->ndead < 4) o->dead[o->ndead++] = (uintptr_t)elt;
}
static void s_worker(void *arg) {
    int t = (int)(intptr_t)arg; sthr_t *T = &ST[t];
    for (int j = 0; j < T->nops; j++) {
        sop_t *o = &T->ops[j]; T->cur = j;
        void *r;                                 /* the result is complete before it is stored */
        if (o->k == 'T') r = parsec_info_test_and_set(&s_arr, s_ids[o->i], (void *)o->v, (void *)o->old);
        else if (o->k == 'S') r = parsec_info_set(&s_arr, s_ids[o->i], (void *)o->v);
        else r = parsec_info_get(&s_arr, s_ids[o->i]);
        o->ret = (uintptr_t)r;
        if (j + 1 < T->nops) cos_yield();        /* an operation boundary is a step boundary */
    }
}
static void do_sched(char *line) {
    static long sched[8192];
    char *bar1 = strchr(line, '|'), *bar2 = bar1 ? strchr(bar1 + 1, '|') : NULL;
    if (!bar1 || !bar2) { emit("<bad case>"); flush_out(); return; }
    *bar1 = 0; *bar2 = 0;
    char *p = line + 5; int n = (int)strtol(p, &p, 10);
    if (n < 1 || n > MAXN) { emit("<bad case>"); flush_out(); return; }
    PARSEC_OBJ_CONSTRUCT(&nfo, parsec_info_t);
    for (int i = 0; i < MAXN; i++) snprintf(name_buf[i], sizeof name_buf[i], "n%d", i);
    for (int i = 0; i < n; i++) {
        long c = strtol(p, &p, 10); if (*p == ':') p++; long d = strtol(p, &p, 10);
        s_ids[i] = parsec_info_register(&nfo, cname(i), d ? s_dtor : NULL, NULL, c ? s_ctor : NULL,
                                        (void *)(uintptr_t)c, NULL);
    }
    PARSEC_OBJ_CONSTRUCT(&s_arr, parsec_info_object_array_t);
    parsec_info_object_array_init(&s_arr, &nfo, NULL);
    int nt = 0; memset(ST, 0, sizeof ST);
    char *save1 = NULL;
    for (char *th = strtok_r(bar1 + 1, "/", &save1); th; th = strtok_r(NULL, "/", &save1)) {
        if (nt >= SMAXT) { emit("<bad case>"); flush_out(); return; }
        sthr_t *T = &ST[nt++]; char *save2 = NULL;
        for (char *tok = strtok_r(th, " ", &save2); tok; tok = strtok_r(NULL, " ", &save2)) {
            if (T->nops >= SMAXOPS) { emit("<bad case>"); flush_out(); return; }
            sop_t *o = &T->ops[T->nops++]; char *q = tok + 1;
            o->k = tok[0]; o->i = (int)fld(&q, 10);
            if ((o->k != 'T' && o->k != 'S' && o->k != 'G') || o->i < 0 || o->i >= n || s_ids[o->i] < 0) { emit("<bad case>"); flush_out(); return; }
            if (o->k != 'G') o->v = (uintptr_t)fld(&q, 16);
            if (o->k == 'T') o->old = (uintptr_t)fld(&q, 16);
        }
    }
    char *q = bar2 + 1; int ns = hc_ints(&q, sched, 8192);
#if defined(VERIF_RACE)
    race_reset();
    race_share(&s_arr.known_infos, sizeof s_arr.known_infos);
    race_share(&s_arr.info_objects, sizeof s_arr.info_objects);
    race_share(&s_arr.rw_lock, sizeof s_arr.rw_lock);
    if (s_arr.info_objects) race_share(s_arr.info_objects, sizeof(void *) * (size_t)s_arr.known_infos);
    race_share(&nfo.max_id, sizeof nfo.max_id);
    race_share((void *)&nfo.info_list.atomic_lock, sizeof nfo.info_list.atomic_lock);
    for (parsec_list_item_t *it = PARSEC_LIST_ITERATOR_FIRST(&nfo.info_list);
         it != PARSEC_LIST_ITERATOR_END(&nfo.info_list); it = PARSEC_LIST_ITERATOR_NEXT(it))
        race_share(it, sizeof(parsec_info_entry_t));
#endif
    cos_reset();
    for (int t = 0; t < nt; t++) cos_spawn(s_worker, (void *)(intptr_t)t);
    int dl = cos_run(sched, ns, 1000);
    for (int t = 0; t < nt; t++) {
        emit("%st%d:", t ? " | " : "", t);
        for (int j = 0; j < ST[t].nops; j++) {
            sop_t *o = &ST[t].ops[j];
            if (o->k == 'G') {
                emit(" G=%lx,", (unsigned long)o->ret);
                if (o->made) emit("%lx", (unsigned long)o->made); else emit("-");
                emit(",["); for (int d = 0; d < o->ndead; d++) emit("%s%lx", d ? "," : "", (unsigned long)o->dead[d]); emit("]");
            } else emit(" %c=%lx", o->k, (unsigned long)o->ret);
        }
    }
    emit(" | slots: ");
    for (int i = 0; i < s_arr.known_infos; i++) emit("%s%lx", i ? "," : "", (unsigned long)(uintptr_t)s_arr.info_objects[i]);
    emit(" | steps:"); for (int t = 0; t < nt; t++) emit(" %d", cos_steps[t]);
    emit(" | spins:"); for (int t = 0; t < nt; t++) emit(" %d", cos_spins[t]);
    if (dl) emit(" <deadlock>");
    flush_out();
}

/* ---- T-sched: coroutines on the registry ------------------------------------------------ */
typedef struct { char k; int n; int ret; int skipped; int nsnap; int snap[2 * MAXN + 2]; } qop_t;
typedef struct { int nops; qop_t ops[SMAXOPS]; int held[MAXN]; } qthr_t;
static qthr_t QT[SMAXT];
static void q_worker(void *arg) {
    int t = (int)(intptr_t)arg; qthr_t *T = &QT[t];
    for (int j = 0; j < T->nops; j++) {
        qop_t *o = &T->ops[j]; int r;
        if (o->k == 'R') {
            r = parsec_info_register(&nfo, cname(o->n), NULL, NULL, NULL, NULL, NULL);
            if (r != PARSEC_INFO_ID_UNDEFINED) T->held[o->n] = r;
            o->ret = r;
        } else if (o->k == 'U') {
            if (T->held[o->n] < 0) o->skipped = 1;
            else { int id = T->held[o->n]; T->held[o->n] = -1; r = parsec_info_unregister(&nfo, id, NULL); o->ret = r; }
        } else { r = parsec_info_lookup(&nfo, cname(o->n), NULL); o->ret = r; }
        /* the registry as this thread sees it now that the call has returned: walked without yielding */
        cos_enabled = 0;
        /* only when nobody is inside a critical section of the registry (the lock word of this build is an int32) */
        if (*(volatile int32_t *)&nfo.info_list.atomic_lock != 0) o->nsnap = -1;
        else
        for (parsec_list_item_t *it = PARSEC_LIST_ITERATOR_FIRST(&nfo.info_list);
             it != PARSEC_LIST_ITERATOR_END(&nfo.info_list) && o->nsnap < MAXN; it = PARSEC_LIST_ITERATOR_NEXT(it)) {
            parsec_info_entry_t *ie = (parsec_info_entry_t *)it; int nm = -1;
            for (int n = 0; n < MAXN; n++) if (!strcmp(cname(n), ie->name)) { nm = n; break; }
            o->snap[2 * o->nsnap] = ie->iid; o->snap[2 * o->nsnap + 1] = nm; o->nsnap++;
        }
        cos_enabled = 1;
        if (j + 1 < T->nops) cos_yield();
    }
}
static void do_regs(char *line) {
    static long sched[8192];
    char *bar1 = strchr(line, '|'), *bar2 = bar1 ? strchr(bar1 + 1, '|') : NULL;
    if (!bar1 || !bar2) { emit("<bad case>"); flush_out(); return; }
    *bar1 = 0; *bar2 = 0;
    PARSEC_OBJ_CONSTRUCT(&nfo, parsec_info_t);
    { parsec_list_item_t warm; PARSEC_OBJ_CONSTRUCT(&warm, parsec_list_item_t); }   /* class initialisation (it locks) happens here, not in a thread */
    narr = 0;
    for (int i = 0; i < MAXN; i++) snprintf(name_buf[i], sizeof name_buf[i], "n%d", i);
    memset(QT, 0, sizeof QT);
    for (int t = 0; t < SMAXT; t++) for (int n = 0; n < MAXN; n++) QT[t].held[n] = -1;
    char *save0 = NULL;
    for (char *tok = strtok_r(line + 5, " ", &save0); tok; tok = strtok_r(NULL, " ", &save0)) {
        char *q; long n = strtol(tok, &q, 10); long t = (*q == '@') ? strtol(q + 1, &q, 10) : -1;
        if (n < 0 || n >= MAXN || t < 0 || t >= SMAXT) { emit("<bad case>"); flush_out(); return; }
        int id = parsec_info_register(&nfo, cname(n), NULL, NULL, NULL, NULL, NULL);
        if (id != PARSEC_INFO_ID_UNDEFINED) QT[t].held[n] = id;
    }
    int nt = 0; char *save1 = NULL;
    for (char *th = strtok_r(bar1 + 1, "/", &save1); th; th = strtok_r(NULL, "/", &save1)) {
        if (nt >= SMAXT) { emit("<bad case>"); flush_out(); return; }
        qthr_t *T = &QT[nt++]; char *save2 = NULL;
        for (char *tok = strtok_r(th, " ", &save2); tok; tok = strtok_r(NULL, " ", &save2)) {
            if (T->nops >= SMAXOPS) { emit("<bad case>"); flush_out(); return; }
            qop_t *o = &T->ops[T->nops++]; char *q = tok + 1;
            o->k = tok[0]; o->n = (int)fld(&q, 10);
            if ((o->k != 'R' && o->k != 'U' && o->k != 'L') || o->n < 0 || o->n >= MAXN) { emit("<bad case>"); flush_out(); return; }
        }
    }
    char *q = bar2 + 1; int ns = hc_ints(&q, sched, 8192);
#if defined(VERIF_RACE)
    race_reset();
    race_share(&nfo.max_id, sizeof nfo.max_id);
    race_share((void *)&nfo.info_list.atomic_lock, sizeof nfo.info_list.atomic_lock);
    race_share((void *)&nfo.info_list.ghost_element, sizeof nfo.info_list.ghost_element);
    race_share((void *)&nfo.ioa_list.atomic_lock, sizeof nfo.ioa_list.atomic_lock);
    for (parsec_list_item_t *it = PARSEC_LIST_ITERATOR_FIRST(&nfo.info_list);
         it != PARSEC_LIST_ITERATOR_END(&nfo.info_list); it = PARSEC_LIST_ITERATOR_NEXT(it))
        race_share(it, sizeof(parsec_info_entry_t));
    v_share = 1;                           /* entries allocated by the threads are shared too */
#endif
    emit("init{");
    { int k = 0;
      for (parsec_list_item_t *it = PARSEC_LIST_ITERATOR_FIRST(&nfo.info_list);
           it != PARSEC_LIST_ITERATOR_END(&nfo.info_list); it = PARSEC_LIST_ITERATOR_NEXT(it), k++) {
          parsec_info_entry_t *ie = (parsec_info_entry_t *)it; int nm = -1;
          for (int n = 0; n < MAXN; n++) if (!strcmp(cname(n), ie->name)) { nm = n; break; }
          emit("%s%d=%d", k ? "," : "", ie->iid, nm);
      } }
    emit("} | ");
    cos_reset();
    for (int t = 0; t < nt; t++) cos_spawn(q_worker, (void *)(intptr_t)t);
    int dl = cos_run(sched, ns, 1000);
    v_share = 0;
    for (int t = 0; t < nt; t++) {
        emit("%st%d:", t ? " | " : "", t);
        for (int j = 0; j < QT[t].nops; j++) {
            qop_t *o = &QT[t].ops[j];
            if (o->skipped) emit(" %c=skip", o->k); else emit(" %c=%d", o->k, o->ret);
            if (o->nsnap < 0) { emit("{?}"); continue; }
            emit("{"); for (int q2 = 0; q2 < o->nsnap; q2++) emit("%s%d=%d", q2 ? "," : "", o->snap[2 * q2], o->snap[2 * q2 + 1]); emit("}");
        }
    }
    emit(" |"); p_state();
    emit(" | steps:"); for (int t = 0; t < nt; t++) emit(" %d", cos_steps[t]);
    emit(" | spins:"); for (int t = 0; t < nt; t++) emit(" %d", cos_spins[t]);
    if (dl) emit(" <deadlock>");
    flush_out();
}

static void do_case(char *line) {
    if (!strncmp(line, "sched ", 6)) { do_sched(line); return; }
    if (!strncmp(line, "regs ", 5) || !strcmp(line, "regs")) { do_regs(line); return; }
    PARSEC_OBJ_CONSTRUCT(&nfo, parsec_info_t);
    narr = 0; for (int i = 0; i < MAXN; i++) { held[i] = -1; snprintf(name_buf[i], sizeof name_buf[i], "n%d", i); }
    int distinct = 1, first = 1;
    for (char *tok = strtok(line, " "); tok; tok = strtok(NULL, " ")) {
        char *p = tok + 1; char o = tok[0];
        nev = 0; ctor_called = 0;
        if (!first) emit(" | "); first = 0;
        if (o == 'R') {
            long n = fld(&p, 10), cb = fld(&p, 10), ct = fld(&p, 10), dt = fld(&p, 10);
            if (n < 0 || n >= MAXN) { emit("bad"); goto state; }
            int id = parsec_info_register(&nfo, cname(n), dt ? dtor_cb : NULL, (void *)(uintptr_t)(0xD000 + n),
                                          ct ? ctor_cb : NULL, (void *)(uintptr_t)ct, (void *)(uintptr_t)cb);
            if (id != PARSEC_INFO_ID_UNDEFINED) held[n] = id;
            emit("r=%d", id);
        } else if (o == 'U' || o == 'V') {
            long n = fld(&p, 10); int id;
            if (o == 'U') {
                if (n < 0 || n >= MAXN || held[n] < 0) { emit("skip"); goto state; }
                id = held[n]; held[n] = -1;
            } else {
                int h = 0; for (int i = 0; i < MAXN; i++) if (held[i] == n) h = 1;
                if (h) { emit("skip"); goto state; }
                id = (int)n;
            }
            int r = parsec_info_unregister(&nfo, id, NULL);
            emit("u=%d ", r); p_events();
        } else if (o == 'L') {
            long n = fld(&p, 10); void *cb = (void *)0x77;
            if (n < 0 || n >= MAXN) { emit("bad"); goto state; }
            int id = parsec_info_lookup(&nfo, cname(n), &cb);
            if (id == PARSEC_INFO_ID_UNDEFINED) emit("l=-1"); else emit("l=%d:%lx", id, (unsigned long)(uintptr_t)cb);
        } else if (o == 'A') {
            if (narr >= MAXA) { emit("bad"); goto state; }
            PARSEC_OBJ_CONSTRUCT(&arrs[narr], parsec_info_object_array_t);
            parsec_info_object_array_init(&arrs[narr], &nfo, (void *)(uintptr_t)(narr + 1));
            alive[narr] = 1; emit("a=%d", narr); narr++;
        } else if (o == 'X') {
            long a = fld(&p, 10);
            if (a < 0 || a >= narr || !alive[a]) { emit("skip"); goto state; }
            PARSEC_OBJ_DESTRUCT(&arrs[a]); alive[a] = 0; emit("x");
        } else if (o == 'S' || o == 'G' || o == 'T') {
            long a = fld(&p, 10), n = fld(&p, 10);
            uintptr_t v = 0, old = 0;
            if (o != 'G') v = (uintptr_t)fld(&p, 16);
            if (o == 'T') old = (uintptr_t)fld(&p, 16);
            if (a < 0 || a >= narr || !alive[a] || n < 0 || n >= MAXN || held[n] < 0) { emit("skip"); goto state; }
            if (held[n] > nfo.max_id) { emit("oob"); goto state; }
            void *r;
            if (o == 'S') r = parsec_info_set(&arrs[a], held[n], (void *)v);
            else if (o == 'G') r = parsec_info_get(&arrs[a], held[n]);
            else r = parsec_info_test_and_set(&arrs[a], held[n], (void *)v, (void *)old);
            emit("v=%lx c%d ", (unsigned long)(uintptr_t)r, ctor_called); p_events();
        } else { emit("bad"); }
    state:
        distinct = p_state();
        flush_out();
    }
    if (!first) emit(" | ");
    if (distinct) {
        nev = 0;
        PARSEC_OBJ_DESTRUCT(&nfo);
        emit("end "); p_events();
    } else emit("end dup");
    flush_out();
}

int main(int argc, char **argv) {
    /* one child runs consecutive cases until one of them kills it; each case's output is a
     * newline-terminated line in the pipe, the line of a case that dies is completed by <crash> */
    FILE *f = hc_open(argc, argv); char *l;
    char **cases = NULL; size_t n = 0, cap = 0;
    while ((l = hc_next(f))) {
        if (n == cap) { cap = cap ? 2 * cap : 1024; cases = realloc(cases, cap * sizeof *cases); }
        cases[n++] = strdup(l);
    }
    static char buf[1 << 17];
    size_t k = 0;
    while (k < n) {
        int pfd[2];
        fflush(stdout);
        if (pipe(pfd)) { perror("pipe"); return 2; }
        pid_t pid = fork();
        if (pid < 0) { perror("fork"); return 2; }
        if (pid == 0) {
            close(pfd[0]); out_fd = pfd[1];
            for (size_t i = k; i < n; i++) {
                hc_alarm(10);
                do_case(cases[i]);
                emit("\n"); flush_out();
            }
            _exit(0);
        }
        close(pfd[1]);
        size_t have = 0; ssize_t r;                 /* bytes of the current (incomplete) line */
        while ((r = read(pfd[0], buf + have, sizeof(buf) - 1 - have)) > 0) {
            have += (size_t)r;
            char *nl;
            while ((nl = memchr(buf, '\n', have))) {
                size_t len = (size_t)(nl - buf) + 1;
                fwrite(buf, 1, len, stdout); k++;
                memmove(buf, buf + len, have - len); have -= len;
            }
            if (have >= sizeof(buf) - 1) have = 0;    /* absurdly long line: drop */
        }
        close(pfd[0]);
        int st = 0; waitpid(pid, &st, 0);
        if (k < n && !(WIFEXITED(st) && WEXITSTATUS(st) == 0)) {      /* the child died inside case k */
            fwrite(buf, 1, have, stdout);
            const char *sep = have ? " | " : "";
            if (WIFSIGNALED(st) && WTERMSIG(st) == SIGALRM) printf("%s<timeout>\n", sep);
            else if (WIFSIGNALED(st)) printf("%s<crash>\n", sep);
            else printf("%s<exit %d>\n", sep, WEXITSTATUS(st));
            k++;
        } else if (k < n && have == 0 && WIFEXITED(st)) {
            /* cannot happen: the child exits 0 only after the last case */
            printf("<exit 0>\n"); k++;
        }
    }
    return 0;
}
