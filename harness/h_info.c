/* C41 harness (T-seq): op sequences on the real info registry / info object arrays of
 * parsec/class/info.c.  info.c is #included (with parsec_object.c, parsec_list.c,
 * parsec_rwlock.c, so no libparsec is needed) after redirecting its allocator calls to
 * wrappers that make indeterminate memory visible: malloc'ed and realloc-grown bytes are
 * filled with 0xA5 (the model's POISON), calloc'ed bytes are zero, freed bytes become 0x5A.
 *
 * case: ops separated by blanks
 *   R:n:cb:ctor:dtor  register name n; cb_data = cb; ctor 0 = no constructor, else a constructor
 *                     with cons_data = ctor (returns NULL when ctor = 1, else
 *                     0xC000000000000000 + ctor*65536 + tag of the array); dtor 0/1
 *   U:n               unregister the id that register returned for n
 *   V:i               unregister the raw id i (skipped when some name holds i)
 *   L:n               lookup by name
 *   A                 new object array (cons_obj tag = index + 1)
 *   X:a               destruct array a
 *   S:a:n:v   G:a:n   T:a:n:v:old     set / get / test_and_set on array a, id held for n (v, old in hex)
 * out : one segment per op " | " separated:   <result> <registry> <arrays>
 *   result  r=<id>  u=<id> ~[v,..] (destructor calls)  l=<id>:<cb>  a=<idx>  x  v=<hex> c<0|1> ~[..]
 *           skip (the op does not apply)   oob (held id above max_id: not executed)
 *   registry  reg[id=name,...]max=<max_id>     arrays  A<idx>(<known>:<slot>,...) or A<idx>(dead)
 *   then " | end ~[..]" = destructor calls of parsec_info_destructor (only when the listed ids are
 *   pairwise distinct: the destructor is not meant to survive duplicates), or " | <crash>"
 *   when the child running the case died (a NULL dereference in parsec_info_get is a possible
 *   observation of the unchanged code). */
#define BUILDING_PARSEC 1
#include "parsec/class/parsec_object.c"
#include "parsec/class/parsec_list.c"
#include "parsec/class/parsec_rwlock.c"
#include "parsec/class/info.h"
#include "hcommon.h"
#include <stdarg.h>
#include <unistd.h>
#include <signal.h>
#include <sys/wait.h>

/* ---- allocator wrappers used by info.c only ------------------------------ */
#define VHDR 16
static void *v_malloc(size_t n) {
    unsigned char *p = malloc(n + VHDR); if (!p) abort();
    *(size_t *)p = n; memset(p + VHDR, 0xA5, n); return p + VHDR;
}
static void *v_calloc(size_t a, size_t b) {
    unsigned char *p = v_malloc(a * b); memset(p, 0, a * b); return p;
}
static void v_free(void *q) {
    if (!q) return;
    unsigned char *p = (unsigned char *)q - VHDR; memset(q, 0x5A, *(size_t *)p); free(p);
}
static void *v_realloc(void *q, size_t n) {
    if (!q) return v_malloc(n);
    size_t old = *(size_t *)((unsigned char *)q - VHDR);
    unsigned char *p = v_malloc(n); memcpy(p, q, old < n ? old : n); v_free(q); return p;
}
static char *v_strdup(const char *s) { char *p = v_malloc(strlen(s) + 1); strcpy(p, s); return p; }
#define malloc(n) v_malloc(n)
#define calloc(a, b) v_calloc(a, b)
#define realloc(p, n) v_realloc(p, n)
#define free(p) v_free(p)
#define strdup(s) v_strdup(s)
#include "parsec/class/info.c"
#undef malloc
#undef calloc
#undef realloc
#undef free
#undef strdup

/* ---- output: written to the parent through a pipe, flushed after every op -- */
static int out_fd = 1;
static char ob[1 << 16]; static size_t olen;
static void emit(const char *fmt, ...) {
    va_list ap; va_start(ap, fmt);
    if (olen < sizeof(ob) - 512) olen += (size_t)vsnprintf(ob + olen, sizeof(ob) - olen, fmt, ap);
    va_end(ap);
}
static void flush_out(void) {
    size_t off = 0;
    while (off < olen) { ssize_t w = write(out_fd, ob + off, olen - off); if (w <= 0) _exit(3); off += (size_t)w; }
    olen = 0;
}

/* ---- the objects of one case ------------------------------------------------ */
#define MAXN 16
#define MAXA 12
static const char *pool_names[6] = { "A", "AB", "ABC", "B", "", "A::B" };
static char name_buf[MAXN][16];
static const char *cname(long n) { return n < 6 ? pool_names[n] : name_buf[n]; }

static parsec_info_t nfo;
static parsec_info_object_array_t arrs[MAXA];
static int narr, alive[MAXA];
static int held[MAXN];                   /* id returned by register, -1 = none */
static uintptr_t ev[256]; static int nev, ctor_called;

static void *ctor_cb(void *obj, void *cons_data) {
    uintptr_t c = (uintptr_t)cons_data, tag = (uintptr_t)obj;
    ctor_called = 1;
    if (c == 1) return NULL;
    return (void *)(0xC000000000000000ULL + c * 65536ULL + tag);
}
static void dtor_cb(void *elt, void *des_data) { (void)des_data; if (nev < 256) ev[nev++] = (uintptr_t)elt; }
static void p_events(void) {
    emit("~[");
    for (int i = 0; i < nev; i++) emit("%s%lx", i ? "," : "", (unsigned long)ev[i]);
    emit("]");
}
/* registry in list order; returns 1 when the ids are pairwise distinct */
static int p_state(void) {
    int distinct = 1, k = 0, ids[64];
    emit(" reg[");
    for (parsec_list_item_t *it = PARSEC_LIST_ITERATOR_FIRST(&nfo.info_list);
         it != PARSEC_LIST_ITERATOR_END(&nfo.info_list) && k < 64; it = PARSEC_LIST_ITERATOR_NEXT(it)) {
        parsec_info_entry_t *ie = (parsec_info_entry_t *)it;
        long nm = -1;
        for (long n = 0; n < MAXN; n++) if (!strcmp(cname(n), ie->name)) { nm = n; break; }
        emit("%s%d=%ld", k ? "," : "", ie->iid, nm);
        for (int j = 0; j < k; j++) if (ids[j] == ie->iid) distinct = 0;
        ids[k++] = ie->iid;
    }
    emit("]max=%d", nfo.max_id);
    for (int a = 0; a < narr; a++) {
        if (!alive[a]) { emit(" A%d(dead)", a); continue; }
        emit(" A%d(%d:", a, arrs[a].known_infos);
        for (int i = 0; i < arrs[a].known_infos; i++)
            emit("%s%lx", i ? "," : "", (unsigned long)(uintptr_t)arrs[a].info_objects[i]);
        emit(")");
    }
    return distinct;
}

static long fld(char **p, int base) {          /* next ':'-separated field */
    char *s = *p; if (*s == ':') s++;
    char *e; unsigned long v = strtoul(s, &e, base); *p = e; return (long)v;
}

static void do_case(char *line) {
    PARSEC_OBJ_CONSTRUCT(&nfo, parsec_info_t);
    narr = 0; for (int i = 0; i < MAXN; i++) { held[i] = -1; snprintf(name_buf[i], sizeof name_buf[i], "n%d", i); }
    int distinct = 1, first = 1;
    for (char *tok = strtok(line, " "); tok; tok = strtok(NULL, " ")) {
        char *p = tok + 1; char o = tok[0];
        nev = 0; ctor_called = 0;
        if (!first) emit(" | "); first = 0;
        if (o == 'R') {
            long n = fld(&p, 10), cb = fld(&p, 10), ct = fld(&p, 10), dt = fld(&p, 10);
            if (n < 0 || n >= MAXN) { emit("bad"); goto state; }
            int id = parsec_info_register(&nfo, cname(n), dt ? dtor_cb : NULL, (void *)(uintptr_t)(0xD000 + n),
                                          ct ? ctor_cb : NULL, (void *)(uintptr_t)ct, (void *)(uintptr_t)cb);
            if (id != PARSEC_INFO_ID_UNDEFINED) held[n] = id;
            emit("r=%d", id);
        } else if (o == 'U' || o == 'V') {
            long n = fld(&p, 10); int id;
            if (o == 'U') {
                if (n < 0 || n >= MAXN || held[n] < 0) { emit("skip"); goto state; }
                id = held[n]; held[n] = -1;
            } else {
                int h = 0; for (int i = 0; i < MAXN; i++) if (held[i] == n) h = 1;
                if (h) { emit("skip"); goto state; }
                id = (int)n;
            }
            int r = parsec_info_unregister(&nfo, id, NULL);
            emit("u=%d ", r); p_events();
        } else if (o == 'L') {
            long n = fld(&p, 10); void *cb = (void *)0x77;
            if (n < 0 || n >= MAXN) { emit("bad"); goto state; }
            int id = parsec_info_lookup(&nfo, cname(n), &cb);
            if (id == PARSEC_INFO_ID_UNDEFINED) emit("l=-1"); else emit("l=%d:%lx", id, (unsigned long)(uintptr_t)cb);
        } else if (o == 'A') {
            if (narr >= MAXA) { emit("bad"); goto state; }
            PARSEC_OBJ_CONSTRUCT(&arrs[narr], parsec_info_object_array_t);
            parsec_info_object_array_init(&arrs[narr], &nfo, (void *)(uintptr_t)(narr + 1));
            alive[narr] = 1; emit("a=%d", narr); narr++;
        } else if (o == 'X') {
            long a = fld(&p, 10);
            if (a < 0 || a >= narr || !alive[a]) { emit("skip"); goto state; }
            PARSEC_OBJ_DESTRUCT(&arrs[a]); alive[a] = 0; emit("x");
        } else if (o == 'S' || o == 'G' || o == 'T') {
            long a = fld(&p, 10), n = fld(&p, 10);
            uintptr_t v = 0, old = 0;
            if (o != 'G') v = (uintptr_t)fld(&p, 16);
            if (o == 'T') old = (uintptr_t)fld(&p, 16);
            if (a < 0 || a >= narr || !alive[a] || n < 0 || n >= MAXN || held[n] < 0) { emit("skip"); goto state; }
            if (held[n] > nfo.max_id) { emit("oob"); goto state; }
            void *r;
            if (o == 'S') r = parsec_info_set(&arrs[a], held[n], (void *)v);
            else if (o == 'G') r = parsec_info_get(&arrs[a], held[n]);
            else r = parsec_info_test_and_set(&arrs[a], held[n], (void *)v, (void *)old);
            emit("v=%lx c%d ", (unsigned long)(uintptr_t)r, ctor_called); p_events();
        } else { emit("bad"); }
    state:
        distinct = p_state();
        flush_out();
    }
    if (!first) emit(" | ");
    if (distinct) {
        nev = 0;
        PARSEC_OBJ_DESTRUCT(&nfo);
        emit("end "); p_events();
    } else emit("end dup");
    flush_out();
}

int main(int argc, char **argv) {
    /* one child runs consecutive cases until one of them kills it; each case's output is a
     * newline-terminated line in the pipe, the line of a case that dies is completed by <crash> */
    FILE *f = hc_open(argc, argv); char *l;
    char **cases = NULL; size_t n = 0, cap = 0;
    while ((l = hc_next(f))) {
        if (n == cap) { cap = cap ? 2 * cap : 1024; cases = realloc(cases, cap * sizeof *cases); }
        cases[n++] = strdup(l);
    }
    static char buf[1 << 17];
    size_t k = 0;
    while (k < n) {
        int pfd[2];
        fflush(stdout);
        if (pipe(pfd)) { perror("pipe"); return 2; }
        pid_t pid = fork();
        if (pid < 0) { perror("fork"); return 2; }
        if (pid == 0) {
            close(pfd[0]); out_fd = pfd[1];
            for (size_t i = k; i < n; i++) {
                alarm(10);
                do_case(cases[i]);
                emit("\n"); flush_out();
            }
            _exit(0);
        }
        close(pfd[1]);
        size_t have = 0; ssize_t r;                 /* bytes of the current (incomplete) line */
        while ((r = read(pfd[0], buf + have, sizeof(buf) - 1 - have)) > 0) {
            have += (size_t)r;
            char *nl;
            while ((nl = memchr(buf, '\n', have))) {
                size_t len = (size_t)(nl - buf) + 1;
                fwrite(buf, 1, len, stdout); k++;
                memmove(buf, buf + len, have - len); have -= len;
            }
            if (have >= sizeof(buf) - 1) have = 0;    /* absurdly long line: drop */
        }
        close(pfd[0]);
        int st = 0; waitpid(pid, &st, 0);
        if (k < n && !(WIFEXITED(st) && WEXITSTATUS(st) == 0)) {      /* the child died inside case k */
            fwrite(buf, 1, have, stdout);
            const char *sep = have ? " | " : "";
            if (WIFSIGNALED(st) && WTERMSIG(st) == SIGALRM) printf("%s<timeout>\n", sep);
            else if (WIFSIGNALED(st)) printf("%s<crash>\n", sep);
            else printf("%s<exit %d>\n", sep, WEXITSTATUS(st));
            k++;
        } else if (k < n && have == 0 && WIFEXITED(st)) {
            /* cannot happen: the child exits 0 only after the last case */
            printf("<exit 0>\n"); k++;
        }
    }
    return 0;
}
