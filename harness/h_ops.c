/* C22 harness: the matrix operators of parsec/data_dist/matrix run by the real runtime
 * (libparsec built from the repository under test) with logging operators.
 *
 *   [mpiexec -n R] h_ops <casefile> <outprefix> <first-case-index>
 *
 * Every rank reads the same case file (all cases of a file share R, T and the scheduler),
 * initialises PaRSEC once (T cores, --mca mca_sched S) and runs the cases one after the
 * other.  Rank r appends one line per case to <outprefix>.<r>:  "k <index> <payload>".
 * checks/C22.py merges the ranks' payloads into the observation line.  A watchdog thread
 * turns a case that does not complete into "k <index> HANG" and ends the process; a fatal
 * signal gives "k <index> CRASH" — the plugin restarts after that case.
 *
 * cases (R T S are the first three fields after the kind):
 *   apply  R T S uplo mt nt mb nb P Q            parsec_apply_New(uplo, A, op, NULL) on a P x Q block-cyclic A
 *   map    R T S mt nt smt snt mb nb P Q fx | sched  parsec_map_operator_New(A, B, op, NULL); A is the mt x nt
 *                                                leading part of a stored smt x snt tile grid (fx, sched: model only)
 *   reduce R T S MT mb nb | v0 .. vMT            reduce.jdf of the repository with the BODY replaced by
 *                                                ops_reduce_body (see checks/C22.py); one extra stored tile row
 *   reducelib R T S MT mb nb                     parsec_reduce_new of libparsec as shipped; stdout captured
 *   rcol | rrow  R T S mt nt mb nb               parsec_reduce_col_New / parsec_reduce_row_New
 * payloads:
 *   apply   A m,n,u,r[!] ... | D m,n:d ...       operator calls (! = the data pointer is not tile (m,n)); tiles whose
 *                                                elements changed, d = uniform increment or ?
 *   map     V m,n,r[!] ... | D m,n:d ... | end=ok
 *   reduce  I l,p:lo,hi,cnt,sum,max,sq ... | R lo,hi,cnt,sum,max,sq | depth=d
 *   reducelib  I l,p ... | depth=d
 *   rcol/rrow  ops=<n> end=ok
 */
#include "hcommon.h"
#include <mpi.h>
#include <pthread.h>
#include <stdarg.h>
#include <signal.h>
#include <unistd.h>
#include <time.h>
#include "parsec.h"
#include "parsec/runtime.h"
#include "parsec/data_internal.h"
#include "parsec/execution_stream.h"
#include "parsec/arena.h"
#include "parsec/datatype.h"
#include "parsec/data_dist/matrix/matrix.h"
#include "parsec/data_dist/matrix/two_dim_rectangle_cyclic.h"
#include "parsec/data_dist/matrix/reduce.h"
#include "opsrl.h"        /* generated from the repository's reduce.jdf with a logging BODY */

static int me = 0, world = 1;
static FILE *out;
static parsec_context_t *ctx;

/* ------------------------------------------------------------ watchdog */
static volatile int wd_idx = -1, wd_written = 1;
static volatile time_t wd_deadline = 0;
static int wd_secs = 8;
static void finish_line(int idx, const char *txt) {
    fprintf(out, "k %d %s\n", idx, txt); fflush(out); wd_written = 1;
}
static const char *cur_kind = "";
static void hang_payload(void);          /* what is known when a case does not complete */
static volatile int32_t nops;
static void *watchdog(void *arg) {
    (void)arg;
    for (;;) {
        usleep(50000);
        if (wd_idx >= 0 && time(NULL) > wd_deadline) {
            if (!wd_written) hang_payload();
            _exit(3);
        }
    }
    return NULL;
}
static void on_signal(int sig) {
    (void)sig;
    if (wd_idx >= 0 && !wd_written) {
        char b[96]; int n;
        if (cur_kind[0] == 'r' && (cur_kind[1] == 'c' || cur_kind[1] == 'r')) n = snprintf(b, sizeof b, "k %d ops=%d end=crash\n", wd_idx, (int)nops);
        else n = snprintf(b, sizeof b, "k %d CRASH\n", wd_idx);
        if (write(fileno(out), b, n)) {}
    }
    _exit(4);
}
static void case_begin(int idx) { wd_written = 0; wd_deadline = time(NULL) + wd_secs; wd_idx = idx; }

/* ------------------------------------------------------------ buffers */
static char *ob; static size_t obn, obcap;
static void O(const char *fmt, ...) {
    va_list ap;
    if (obcap - obn < 256) { obcap = obcap ? 2 * obcap : (1 << 16); ob = realloc(ob, obcap); }
    va_start(ap, fmt); obn += vsnprintf(ob + obn, obcap - obn, fmt, ap); va_end(ap);
}

/* -------------------------------------------------------- call log */
typedef struct { int a, b, c, ok; long v[6]; } ent_t;
#define MAXLOG (1 << 16)
static ent_t lg[MAXLOG];
static volatile int32_t nlg;
static ent_t *newent(void) {
    int32_t i = __sync_fetch_and_add(&nlg, 1);
    if (i >= MAXLOG) { fprintf(stderr, "h_ops: log overflow\n"); _exit(5); }
    return &lg[i];
}
static int cmp_ent(const void *x, const void *y) {
    const ent_t *a = x, *b = y;
    if (a->a != b->a) return a->a < b->a ? -1 : 1;
    if (a->b != b->b) return a->b < b->b ? -1 : 1;
    if (a->c != b->c) return a->c < b->c ? -1 : 1;
    return 0;
}

/* ------------------------------------------------------------ matrices */
static int codeA(int m, int n, int k) { return ((m * 64 + n) * 64 + (k % 64)) * 1000; }
static int codeB(int m, int n, int k) { return -(((m * 64 + n) * 64 + (k % 64)) * 1000) - 1000000; }

typedef struct { parsec_matrix_block_cyclic_t d; int smt, snt; } mat_t;
/* stored grid smt x snt tiles, the matrix proper is the leading mt x nt part */
static void mat_init(mat_t *M, int mt, int nt, int smt, int snt, int mb, int nb, int P, int Q, int (*code)(int, int, int)) {
    M->smt = smt; M->snt = snt;
    parsec_matrix_block_cyclic_init(&M->d, PARSEC_MATRIX_INTEGER, PARSEC_MATRIX_TILE, me, mb, nb,
                                    smt * mb, snt * nb, 0, 0, mt * mb, nt * nb, P, Q, 1, 1, 0, 0);
    size_t sz = (size_t)M->d.super.nb_local_tiles * (size_t)M->d.super.bsiz * sizeof(int);
    M->d.mat = parsec_data_allocate(sz ? sz : sizeof(int));
    for (int m = 0; m < smt; m++) for (int n = 0; n < snt; n++) {
        parsec_data_collection_t *dc = &M->d.super.super;
        if (dc->rank_of(dc, m, n) != (uint32_t)me) continue;
        int *t = (int *)parsec_data_get_copy(dc->data_of(dc, m, n), 0)->device_private;
        for (int k = 0; k < mb * nb; k++) t[k] = code(m, n, k);
    }
}
static int *mat_tile(mat_t *M, int m, int n) {
    parsec_data_collection_t *dc = &M->d.super.super;
    return (int *)parsec_data_get_copy(dc->data_of(dc, m, n), 0)->device_private;
}
static void mat_fini(mat_t *M) {
    parsec_data_free(M->d.mat);
    parsec_tiled_matrix_destroy(&M->d.super);
}
/* tiles (of the stored grid) whose content differs from the initial one */
static void dump_changed(mat_t *M, int (*code)(int, int, int)) {
    parsec_data_collection_t *dc = &M->d.super.super;
    int mb = M->d.super.mb, nb = M->d.super.nb;
    O(" | D");
    for (int m = 0; m < M->smt; m++) for (int n = 0; n < M->snt; n++) {
        if (dc->rank_of(dc, m, n) != (uint32_t)me) continue;
        int *t = mat_tile(M, m, n);
        int d = t[0] - code(m, n, 0), uni = 1;
        for (int k = 1; k < mb * nb; k++) if (t[k] - code(m, n, k) != d) uni = 0;
        if (!uni) O(" %d,%d:?", m, n);
        else if (d != 0) O(" %d,%d:%d", m, n, d);
    }
}

static int run_tp(parsec_taskpool_t *tp) {
    if (parsec_context_add_taskpool(ctx, tp) != 0) return 1;
    if (parsec_context_start(ctx) != 0) return 2;
    if (parsec_context_wait(ctx) != 0) return 3;
    return 0;
}

/* ----------------------------------------------------------------- apply */
static int op_apply(struct parsec_execution_stream_s *es, const parsec_tiled_matrix_t *desc, void *data,
                    int uplo, int m, int n, void *args) {
    (void)es; (void)args;
    int *t = (int *)data, sz = desc->mb * desc->nb;
    int d = t[0] - codeA(m, n, 0);
    ent_t *e = newent();
    e->a = m; e->b = n; e->c = uplo; e->ok = (d >= 0 && d < 1000);
    for (int k = 0; k < sz; k++) t[k] += 1;
    return 0;
}
static void do_apply(long *w) {
    int uplo = (int)w[3], mt = (int)w[4], nt = (int)w[5], mb = (int)w[6], nb = (int)w[7], P = (int)w[8], Q = (int)w[9];
    mat_t A;
    mat_init(&A, mt, nt, mt, nt, mb, nb, P, Q, codeA);
    parsec_data_collection_set_key(&A.d.super.super, "A");
    nlg = 0;
    parsec_taskpool_t *tp = parsec_apply_New(uplo, &A.d.super, op_apply, NULL);
    if (!tp) { O("A | D | new-failed"); mat_fini(&A); return; }
    int rc = run_tp(tp);
    parsec_apply_Destruct(tp);
    qsort(lg, nlg, sizeof(ent_t), cmp_ent);
    O("A");
    for (int i = 0; i < nlg; i++) O(" %d,%d,%d,%d%s", lg[i].a, lg[i].b, lg[i].c, me, lg[i].ok ? "" : "!");
    dump_changed(&A, codeA);
    if (rc) O(" | rc=%d", rc);
    mat_fini(&A);
}

/* ------------------------------------------------------------------- map */
static int op_map(struct parsec_execution_stream_s *es, const void *src, void *dst, void *op_data, ...) {
    va_list ap; int m, n;
    (void)es; (void)op_data;
    va_start(ap, op_data); m = va_arg(ap, int); n = va_arg(ap, int); va_end(ap);
    const int *s = (const int *)src; int *t = (int *)dst;
    mat_t *B = (mat_t *)op_data;
    int sz = B->d.super.mb * B->d.super.nb;
    int d = t[0] - codeB(m, n, 0);
    ent_t *e = newent();
    e->a = m; e->b = n; e->c = 0;
    e->ok = (s[0] == codeA(m, n, 0)) && (d >= 0 && d < 1000);
    for (int k = 0; k < sz; k++) t[k] += 1;
    return 0;
}
static mat_t *cur_B;
static void hang_payload(void) {
    if (!strcmp(cur_kind, "map") && cur_B) {
        obn = 0;
        qsort(lg, nlg, sizeof(ent_t), cmp_ent);
        O("V");
        for (int i = 0; i < nlg; i++) O(" %d,%d,%d%s", lg[i].a, lg[i].b, me, lg[i].ok ? "" : "!");
        dump_changed(cur_B, codeB);
        O(" | end=hang");
        fprintf(out, "k %d %s\n", wd_idx, ob);
    } else if (!strcmp(cur_kind, "rcol") || !strcmp(cur_kind, "rrow")) {
        fprintf(out, "k %d ops=%d end=hang\n", wd_idx, (int)nops);
    } else {
        fprintf(out, "k %d HANG\n", wd_idx);
    }
    fflush(out);
}
static void do_map(long *w) {
    int mt = (int)w[3], nt = (int)w[4], smt = (int)w[5], snt = (int)w[6], mb = (int)w[7], nb = (int)w[8], P = (int)w[9], Q = (int)w[10];
    mat_t A, B;
    mat_init(&A, mt, nt, smt, snt, mb, nb, P, Q, codeA);
    mat_init(&B, mt, nt, smt, snt, mb, nb, P, Q, codeB);
    parsec_data_collection_set_key(&A.d.super.super, "A");
    parsec_data_collection_set_key(&B.d.super.super, "B");
    nlg = 0;
    cur_B = &B;
    parsec_taskpool_t *tp = parsec_map_operator_New(&A.d.super, &B.d.super, op_map, &B);
    int rc = run_tp(tp);
    parsec_taskpool_free(tp);
    qsort(lg, nlg, sizeof(ent_t), cmp_ent);
    O("V");
    for (int i = 0; i < nlg; i++) O(" %d,%d,%d%s", lg[i].a, lg[i].b, me, lg[i].ok ? "" : "!");
    dump_changed(&B, codeB);
    O(" | end=%s", rc ? "error" : "ok");
    cur_B = NULL;
    mat_fini(&A); mat_fini(&B);
}

/* ---------------------------------------------------------------- reduce */
#define NSLOT 6
static long rvals[4096];
/* called by the substituted BODY of reduce.jdf: C := A (+) B, B may be NULL */
void ops_reduce_body(int l, int p, const void *A, const void *B, void *C) {
    const int *a = (const int *)A, *b = (const int *)B; int *c = (int *)C;
    ent_t *e = newent();
    e->a = l; e->b = p; e->c = 0; e->ok = (a != NULL && c != NULL);
    if (!e->ok) return;
    if (b) {
        c[0] = a[0] + b[0]; c[1] = a[1] > b[1] ? a[1] : b[1]; c[2] = a[2] + b[2];
        c[3] = a[3] + b[3]; c[4] = a[4] < b[4] ? a[4] : b[4]; c[5] = a[5] > b[5] ? a[5] : b[5];
    } else {
        for (int k = 0; k < NSLOT; k++) c[k] = a[k];
    }
    for (int k = 0; k < NSLOT; k++) e->v[k] = c[k];
}
static void reduce_setup(mat_t *A, mat_t *R, int MT, int mb, int nb, const long *vals) {
    mat_init(A, MT, 1, MT + 1, 1, mb, nb, 1, 1, codeA);
    mat_init(R, 1, 1, 1, 1, mb, nb, 1, 1, codeB);
    parsec_data_collection_set_key(&A->d.super.super, "A");
    parsec_data_collection_set_key(&R->d.super.super, "R");
    for (int i = 0; i <= MT; i++) {
        int *t = mat_tile(A, i, 0);
        long v = vals ? vals[i] : i;
        memset(t, 0, sizeof(int) * mb * nb);
        t[0] = (int)v; t[1] = (int)v; t[2] = (int)(v * v); t[3] = 1; t[4] = i; t[5] = i;
    }
}
static void do_reduce(long *w, char *rest) {
    int MT = (int)w[3], mb = (int)w[4], nb = (int)w[5];
    int nv = hc_ints(&rest, rvals, 4096);
    if (nv != MT + 1 || mb * nb < NSLOT || world != 1) { O("<bad reduce case>"); return; }
    mat_t A, R;
    reduce_setup(&A, &R, MT, mb, nb, rvals);
    nlg = 0;
    parsec_opsrl_taskpool_t *tp = parsec_opsrl_new(&A.d.super, &R.d.super, NULL);
    parsec_datatype_t ty;
    parsec_type_create_contiguous(mb * nb, parsec_datatype_int_t, &ty);
    parsec_arena_datatype_set_type(&tp->arenas_datatypes[PARSEC_opsrl_DEFAULT_ADT_IDX], mb * nb * sizeof(int),
                                   PARSEC_ARENA_ALIGNMENT_SSE, ty);
    int depth = tp->_g_depth;
    int rc = run_tp(&tp->super);
    PARSEC_OBJ_DESTRUCT(&tp->arenas_datatypes[PARSEC_opsrl_DEFAULT_ADT_IDX]);
    parsec_taskpool_free(&tp->super);
    parsec_type_free(&ty);
    qsort(lg, nlg, sizeof(ent_t), cmp_ent);
    O("I");
    for (int i = 0; i < nlg; i++) {
        if (!lg[i].ok) { O(" %d,%d:null", lg[i].a, lg[i].b); continue; }
        O(" %d,%d:%ld,%ld,%ld,%ld,%ld,%ld", lg[i].a, lg[i].b, lg[i].v[4], lg[i].v[5], lg[i].v[3], lg[i].v[0], lg[i].v[1], lg[i].v[2]);
    }
    int *r = mat_tile(&R, 0, 0);
    O(" | R %d,%d,%d,%d,%d,%d | depth=%d", r[4], r[5], r[3], r[0], r[1], r[2], depth);
    if (rc) O(" | rc=%d", rc);
    mat_fini(&A); mat_fini(&R);
}
static char stdout_path[4096];
static void do_reducelib(long *w) {
    int MT = (int)w[3], mb = (int)w[4], nb = (int)w[5];
    if (world != 1) { O("<bad reducelib case>"); return; }
    mat_t A, R;
    reduce_setup(&A, &R, MT, mb, nb, NULL);
    fflush(stdout);
    long off = ftell(stdout);
    parsec_reduce_taskpool_t *tp = parsec_reduce_new(&A.d.super, &R.d.super, NULL);
    parsec_datatype_t ty;
    parsec_type_create_contiguous(mb * nb, parsec_datatype_int_t, &ty);
    parsec_arena_datatype_set_type(&tp->arenas_datatypes[PARSEC_reduce_DEFAULT_ADT_IDX], mb * nb * sizeof(int),
                                   PARSEC_ARENA_ALIGNMENT_SSE, ty);
    int depth = tp->_g_depth;
    int rc = run_tp(&tp->super);
    PARSEC_OBJ_DESTRUCT(&tp->arenas_datatypes[PARSEC_reduce_DEFAULT_ADT_IDX]);
    parsec_taskpool_free(&tp->super);
    parsec_type_free(&ty);
    fflush(stdout);
    nlg = 0;
    FILE *f = fopen(stdout_path, "r");
    if (f) {
        char line[512];
        fseek(f, off, SEEK_SET);
        while (fgets(line, sizeof line, f)) {
            int l, p;
            if (sscanf(line, "reduce(level = %d, process = %d)", &l, &p) == 2) { ent_t *e = newent(); e->a = l; e->b = p; e->c = 0; }
        }
        fclose(f);
    }
    qsort(lg, nlg, sizeof(ent_t), cmp_ent);
    O("I");
    for (int i = 0; i < nlg; i++) O(" %d,%d", lg[i].a, lg[i].b);
    O(" | depth=%d", depth);
    if (rc) O(" | rc=%d", rc);
    mat_fini(&A); mat_fini(&R);
}

/* ------------------------------------------------- reduce_col / reduce_row */
static int op_count(struct parsec_execution_stream_s *es, const void *src, void *dst, void *op_data, ...) {
    (void)es; (void)src; (void)dst; (void)op_data;
    __sync_fetch_and_add(&nops, 1);
    return 0;
}
static void do_rcolrow(long *w, int col) {
    int mt = (int)w[3], nt = (int)w[4], mb = (int)w[5], nb = (int)w[6];
    if (world != 1) { O("<bad case>"); return; }
    mat_t A, D;
    mat_init(&A, mt, nt, mt, nt, mb, nb, 1, 1, codeA);
    if (col) mat_init(&D, 1, nt, 1, nt, mb, nb, 1, 1, codeB); else mat_init(&D, mt, 1, mt, 1, mb, nb, 1, 1, codeB);
    parsec_data_collection_set_key(&A.d.super.super, "A");
    parsec_data_collection_set_key(&D.d.super.super, "D");
    nops = 0;
    parsec_taskpool_t *tp = col ? parsec_reduce_col_New(&A.d.super, &D.d.super, op_count, NULL)
                                : parsec_reduce_row_New(&A.d.super, &D.d.super, op_count, NULL);
    if (!tp) { O("ops=0 end=new-failed"); return; }
    int rc = run_tp(tp);
    O("ops=%d end=%s", (int)nops, rc ? "error" : "ok");
    /* no Destruct: parsec_reduce_col_Destruct is declared in matrix.h but defined nowhere */
}

/* ------------------------------------------------------------------ main */
int main(int argc, char **argv) {
    int provided;
    if (argc < 4) { fprintf(stderr, "usage: h_ops casefile outprefix first\n"); return 2; }
    MPI_Init_thread(NULL, NULL, MPI_THREAD_SERIALIZED, &provided);
    MPI_Comm_size(MPI_COMM_WORLD, &world);
    MPI_Comm_rank(MPI_COMM_WORLD, &me);
    int first = atoi(argv[3]);
    char path[4096];
    snprintf(path, sizeof path, "%s.%d", argv[2], me);
    out = fopen(path, first > 0 ? "a" : "w");
    if (!out) { perror(path); return 2; }
    snprintf(stdout_path, sizeof stdout_path, "%s.stdout.%d", argv[2], me);
    if (!freopen(stdout_path, "w", stdout)) { perror(stdout_path); return 2; }
    if (getenv("H_OPS_WATCHDOG")) wd_secs = atoi(getenv("H_OPS_WATCHDOG"));

    /* all the cases */
    static char *cases[1 << 16]; int ncases = 0;
    FILE *f = hc_open(argc, argv);
    char *line;
    while ((line = hc_next(f)) && ncases < (1 << 16)) cases[ncases++] = strdup(line);
    fclose(f);
    if (ncases == 0 || first >= ncases) { MPI_Finalize(); return 0; }

    /* R T S of the first case */
    char kind[32], sched[64]; int R = 1, T = 1;
    if (sscanf(cases[0], "%31s %d %d %63s", kind, &R, &T, sched) != 4) { fprintf(stderr, "bad first case\n"); return 2; }
    if (R != world) { fprintf(stderr, "h_ops: case wants %d ranks, started with %d\n", R, world); return 2; }
    char *pv[8] = { "--", "--mca", "mca_sched", sched, "--mca", "runtime_warn_slow_binding", "0", NULL };
    int pc = 7; char **pvp = pv;
    ctx = parsec_init(T, &pc, &pvp);
    if (!ctx) { fprintf(stderr, "parsec_init failed\n"); return 2; }

    signal(SIGSEGV, on_signal); signal(SIGBUS, on_signal); signal(SIGABRT, on_signal); signal(SIGFPE, on_signal);
    pthread_t wd; pthread_create(&wd, NULL, watchdog, NULL);

    for (int idx = first; idx < ncases; idx++) {
        char *c = cases[idx], *p = c;
        long w[32]; memset(w, 0, sizeof w);
        /* skip the kind and the scheduler name: collect the integers before '|' */
        char k2[32] = "";
        sscanf(c, "%31s", k2);
        p = c + strlen(k2);
        /* fields: R T S(name) then ints */
        long head[4]; (void)head;
        char *q = p; int nw = 0;
        /* R T */
        w[1] = strtol(q, &q, 10); w[2] = strtol(q, &q, 10);
        while (*q == ' ') q++;
        while (*q && *q != ' ') q++;       /* scheduler name */
        nw = 3 + hc_ints(&q, w + 3, 28);
        (void)nw;
        obn = 0; if (ob) ob[0] = 0;
        cur_kind = k2;
        case_begin(idx);
        if (!strcmp(k2, "apply")) do_apply(w);
        else if (!strcmp(k2, "map")) do_map(w);
        else if (!strcmp(k2, "reduce")) do_reduce(w, q);
        else if (!strcmp(k2, "reducelib")) do_reducelib(w);
        else if (!strcmp(k2, "rcol")) do_rcolrow(w, 1);
        else if (!strcmp(k2, "rrow")) do_rcolrow(w, 0);
        else O("<bad case>");
        finish_line(idx, ob ? ob : "");
        MPI_Barrier(MPI_COMM_WORLD);
        wd_idx = -1;
    }
    wd_idx = -1;
    parsec_fini(&ctx);
    MPI_Finalize();
    fclose(out);
    return 0;
}
