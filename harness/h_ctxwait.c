/* C06 harness: multi-epoch histories of start / add / insert / wait / test calls on a real
 * context, mixing small PTG taskpools (compound_pool.jdf) and DTD taskpools; PTG taskpools
 * may be added from inside task bodies and from completion callbacks.  Every body, every
 * enqueue, every completion callback, every insertion and every return of a wait takes a
 * stamp from one global counter.
 *
 * case line:
 *   ctx <threads> <sched> <spin> <seed> <cold> | <pools> | <nested> | <master ops>
 *     pools    "P<nt>:<w>" (PTG: nt tasks in w chains) or "D" (DTD), blank separated; index = position
 *     nested   "t<p>.<i>+<q>"  task i of PTG taskpool p calls parsec_context_add_taskpool(ctx, q) in its body
 *              "c<p>+<q>"      the completion callback of taskpool p does (first call only)
 *     ops      S start | A<q> add | I<q>:<k> insert k tasks into DTD q | W context_wait | T<q> taskpool_wait(q)
 *              | ? context_test | F<q> free DTD q
 *     cold     0: the worker runs one empty epoch after parsec_init (see compound_rt.h); n > 0: the case runs in a
 *              worker of its own, without that warm-up
 *     seed     schedule seed of the model side (unused here)
 *
 * observation line:
 *   ran=c,.. cb=c,.. waits=<f f ..> tests=<b b ..> act=<v> ep=<n>
 *     ran    completed bodies per taskpool        cb   completion-callback calls per taskpool
 *     waits  per W / T op: e = the call refused (context not started / taskpool unknown); 1 = at its return every
 *            task it had to wait for had ended (W: all tasks of every PTG taskpool enqueued before the return and its
 *            completion callback; all tasks inserted before the return in every DTD taskpool added before it;
 *            T q: the same for q alone); 0 otherwise
 *     tests  results of parsec_context_test      act  context->active_taskpools at the end      ep  successful W ops
 */
#include "compound_rt.h"
#include "parsec/interfaces/dtd/insert_function.h"

#define MAXP 24
#define MAXT 64
#define MAXOPS 96
#define MAXN 64

typedef struct { char kind; int q, k; } op_t;
typedef struct { char kind; int p, i, q; } nest_t;
typedef struct {
    int threads, spin, cold, np, nn, nops; char sched[32];
    char pk[MAXP]; int nt[MAXP], w[MAXP];
    nest_t nest[MAXN]; op_t ops[MAXOPS];
} case_t;
static case_t C;

static parsec_taskpool_t *tp[MAXP];
static volatile int64_t t_end[MAXP][MAXT], t_ins[MAXP][MAXT];      /* end stamp of task i / stamp of its insertion (DTD) */
static volatile int32_t n_end[MAXP], n_cb[MAXP], n_ins[MAXP], cb_added[MAXP], over;
static volatile int64_t s_enq[MAXP], s_cb1[MAXP];

static void nested_adds(char kind, int p, int i) {
    for (int n = 0; n < C.nn; n++)
        if (C.nest[n].kind == kind && C.nest[n].p == p && (kind == 'c' || C.nest[n].i == i))
            parsec_context_add_taskpool(crt_ctx, tp[C.nest[n].q]);
}
static void body_common(int p, int i) {
    if (p < 0 || p >= MAXP || i < 0 || i >= MAXT) { parsec_atomic_fetch_inc_int32(&over); return; }
    if (C.pk[p] == 'P') nested_adds('t', p, i);
    crt_spin(C.spin, p, i);
    if (t_end[p][i]) parsec_atomic_fetch_inc_int32(&over);
    t_end[p][i] = crt_stamp();
    parsec_atomic_fetch_inc_int32(&n_end[p]);
}
void vt_body(int pid, int k, parsec_execution_stream_t *es, parsec_task_t *t) { (void)es; (void)t; body_common(pid, k); }
static int dtd_body(parsec_execution_stream_t *es, parsec_task_t *this_task) {
    int id = -1; (void)es;
    parsec_dtd_unpack_args(this_task, &id);
    body_common(id / MAXT, id % MAXT);
    return PARSEC_HOOK_RETURN_DONE;
}
static int cb_enq(parsec_taskpool_t *t, void *d) { int p = (int)(intptr_t)d; (void)t; if (!s_enq[p]) s_enq[p] = crt_stamp(); return 0; }
static int cb_complete(parsec_taskpool_t *t, void *d) {
    int p = (int)(intptr_t)d; (void)t;
    int64_t s = crt_stamp();
    if (0 == parsec_atomic_fetch_inc_int32(&n_cb[p])) s_cb1[p] = s;
    if (0 == parsec_atomic_fetch_inc_int32(&cb_added[p])) nested_adds('c', p, 0);
    return 0;
}

static int parse_case(const char *line, case_t *c) {
    static char l[HC_MAXLINE];
    strncpy(l, line, HC_MAXLINE - 1); l[HC_MAXLINE - 1] = 0;
    char *f[4]; int nf = 0; char *s = l;
    f[nf++] = s;
    for (; *s && nf < 4; s++) if (*s == '|') { *s = 0; f[nf++] = s + 1; }
    if (nf != 4) return 0;
    memset(c, 0, sizeof *c);
    int seed;
    if (sscanf(f[0], "ctx %d %31s %d %d %d", &c->threads, c->sched, &c->spin, &seed, &c->cold) != 5) return 0;
    if (c->threads < 1 || c->threads > 64) return 0;
    char *tok, *sv;
    for (tok = strtok_r(f[1], " ", &sv); tok; tok = strtok_r(NULL, " ", &sv)) {
        if (c->np >= MAXP) return 0;
        if (tok[0] == 'D' && !tok[1]) { c->pk[c->np++] = 'D'; continue; }
        int nt, w;
        if (sscanf(tok, "P%d:%d", &nt, &w) != 2 || nt < 0 || nt > MAXT || w < 1) return 0;
        c->pk[c->np] = 'P'; c->nt[c->np] = nt; c->w[c->np] = w; c->np++;
    }
    for (tok = strtok_r(f[2], " ", &sv); tok; tok = strtok_r(NULL, " ", &sv)) {
        if (c->nn >= MAXN) return 0;
        nest_t *n = &c->nest[c->nn];
        if (sscanf(tok, "t%d.%d+%d", &n->p, &n->i, &n->q) == 3) n->kind = 't';
        else if (sscanf(tok, "c%d+%d", &n->p, &n->q) == 2) n->kind = 'c';
        else return 0;
        if (n->p < 0 || n->p >= c->np || n->q < 0 || n->q >= c->np || c->pk[n->q] != 'P') return 0;
        c->nn++;
    }
    for (tok = strtok_r(f[3], " ", &sv); tok; tok = strtok_r(NULL, " ", &sv)) {
        if (c->nops >= MAXOPS) return 0;
        op_t *o = &c->ops[c->nops];
        o->kind = tok[0];
        if (tok[0] == 'S' || tok[0] == 'W' || tok[0] == '?') { if (tok[1]) return 0; }
        else if (tok[0] == 'I') { if (sscanf(tok + 1, "%d:%d", &o->q, &o->k) != 2) return 0; }
        else if (tok[0] == 'A' || tok[0] == 'T' || tok[0] == 'F') { if (sscanf(tok + 1, "%d", &o->q) != 1) return 0; }
        else return 0;
        if (o->q < 0 || o->q >= (c->np ? c->np : 1)) return 0;
        c->nops++;
    }
    return 1;
}
static int crt_config(const char *line, char *key, int keylen, int *threads, char *sched) {
    static case_t t;
    if (strncmp(line, "ctx ", 4) || !parse_case(line, &t)) return 0;
    snprintf(key, keylen, "%d:%s:%d", t.threads, t.sched, t.cold);
    *threads = t.threads; strcpy(sched, t.sched);
    crt_warmup = (t.cold == 0);
    return 1;
}

/* is everything this wait had to wait for over at stamp s ?  (q < 0: every taskpool) */
static int wait_ok(int q, int64_t s, const int64_t *s_add) {
    for (int p = 0; p < C.np; p++) {
        if (q >= 0 && p != q) continue;
        if (C.pk[p] == 'P') {
            if (!s_enq[p] || s_enq[p] > s) continue;                 /* not given to the context before the return */
            for (int i = 0; i < C.nt[p]; i++) if (!t_end[p][i] || t_end[p][i] > s) return 0;
            if (!s_cb1[p] || s_cb1[p] > s) return 0;
        } else {
            if (!s_add[p] || s_add[p] > s) continue;
            for (int i = 0; i < n_ins[p]; i++) if (t_ins[p][i] < s && (!t_end[p][i] || t_end[p][i] > s)) return 0;
        }
    }
    return 1;
}

static void crt_run_case(const char *line, FILE *out) {
    if (!parse_case(line, &C)) { fprintf(out, "<bad case>\n"); return; }
    memset((void *)t_end, 0, sizeof t_end); memset((void *)t_ins, 0, sizeof t_ins);
    memset((void *)n_end, 0, sizeof n_end); memset((void *)n_cb, 0, sizeof n_cb); memset((void *)n_ins, 0, sizeof n_ins);
    memset((void *)cb_added, 0, sizeof cb_added); memset((void *)s_enq, 0, sizeof s_enq); memset((void *)s_cb1, 0, sizeof s_cb1);
    over = 0; crt_clock = 0;
    int64_t s_add[MAXP]; memset(s_add, 0, sizeof s_add);
    int freed[MAXP]; memset(freed, 0, sizeof freed);
    int added_by_master[MAXP]; memset(added_by_master, 0, sizeof added_by_master);

    for (int p = 0; p < C.np; p++) {
        if (C.pk[p] == 'P') {
            tp[p] = (parsec_taskpool_t *)parsec_compound_pool_new(&crt_dc, p, C.nt[p], C.w[p]);
            parsec_taskpool_set_enqueue_callback(tp[p], cb_enq, (void *)(intptr_t)p);
        } else {
            tp[p] = parsec_dtd_taskpool_new();
        }
        parsec_taskpool_set_complete_callback(tp[p], cb_complete, (void *)(intptr_t)p);
    }
    char waits[4 * MAXOPS], tests[4 * MAXOPS]; int nw = 0, ntst = 0, ep = 0;
    for (int o = 0; o < C.nops; o++) {
        op_t *op = &C.ops[o]; int rc;
        switch (op->kind) {
        case 'S': parsec_context_start(crt_ctx); break;
        case 'A':
            if (!added_by_master[op->q] && !s_enq[op->q]) {
                added_by_master[op->q] = 1;
                if (C.pk[op->q] == 'D') s_add[op->q] = crt_stamp();
                parsec_context_add_taskpool(crt_ctx, tp[op->q]);
            }
            break;
        case 'I':
            for (int k = 0; k < op->k && n_ins[op->q] < MAXT; k++) {
                int i = n_ins[op->q], id = op->q * MAXT + i;
                t_ins[op->q][i] = crt_stamp();
                n_ins[op->q] = i + 1;
                parsec_dtd_insert_task(tp[op->q], dtd_body, 0, PARSEC_DEV_CPU, "T", sizeof(int), &id, PARSEC_VALUE, PARSEC_DTD_ARG_END);
            }
            break;
        case '?': tests[ntst++] = parsec_context_test(crt_ctx) ? '1' : '0'; tests[ntst++] = ' '; break;
        case 'W': {
            rc = parsec_context_wait(crt_ctx);
            int64_t s = crt_stamp();
            if (rc < 0) waits[nw++] = 'e'; else { waits[nw++] = wait_ok(-1, s, s_add) ? '1' : '0'; ep++; }
            waits[nw++] = ' ';
            break; }
        case 'T': {
            rc = parsec_taskpool_wait(tp[op->q]);
            int64_t s = crt_stamp();
            if (rc < 0) waits[nw++] = 'e'; else waits[nw++] = wait_ok(op->q, s, s_add) ? '1' : '0';
            waits[nw++] = ' ';
            break; }
        case 'F': if (!freed[op->q]) { freed[op->q] = 1; parsec_taskpool_free(tp[op->q]); } break;
        }
    }
    waits[nw ? nw - 1 : 0] = 0; tests[ntst ? ntst - 1 : 0] = 0;
    int act = crt_ctx->active_taskpools;
    fprintf(out, "ran=");
    for (int p = 0; p < C.np; p++) fprintf(out, "%s%d", p ? "," : "", (int)n_end[p]);
    fprintf(out, " cb=");
    for (int p = 0; p < C.np; p++) fprintf(out, "%s%d", p ? "," : "", (int)n_cb[p]);
    fprintf(out, " waits=%s tests=%s act=%d ep=%d%s\n", waits, tests, act, ep, over ? " over" : "");
    fflush(out);
    for (int p = 0; p < C.np; p++) if (!freed[p]) parsec_taskpool_free(tp[p]);
}

int main(int argc, char **argv) { return crt_main(argc, argv, "H_CTXWAIT_TIMEOUT_MS"); }
