/* C12 harness: drives the real user-trigger termination module.  The module
 * source is included so that its static functions are reachable; the comm
 * engine's send_am is replaced by a recorder.
 * case "one n root me"  -> destinations of the notifications of process me
 * case "sys n root"     -> n simulated processes in this address space; the
 *                          recorded messages are delivered FIFO; prints how many
 *                          notifications each rank received and callback counts */
#include "parsec/mca/termdet/user_trigger/termdet_user_trigger_module.c"
#include "hcommon.h"

#define MAXN 5000
static int cur_rank;                    /* process whose code is running */
static int nsent, sent_dst[2*MAXN + 8], sent_src[2*MAXN + 8], sent_root[2*MAXN+8];
static int cb_count[MAXN];
static parsec_taskpool_t *tps[MAXN];
static parsec_context_t *ctxs[MAXN];

static int rec_send_am(parsec_comm_engine_t *ce, parsec_ce_tag_t tag, int dst, void *addr, size_t size) {
    parsec_termdet_user_trigger_msg_t *m = (parsec_termdet_user_trigger_msg_t *)addr;
    (void)ce; (void)tag; (void)size;
    sent_src[nsent] = cur_rank; sent_dst[nsent] = dst; sent_root[nsent] = m->root; nsent++;
    return 0;
}
static void cb(parsec_taskpool_t *tp) { cb_count[tp->context->my_rank]++; }

static void mk(int n, int me) {
    ctxs[me] = calloc(1, sizeof(parsec_context_t) + 64);
    ctxs[me]->my_rank = me; ctxs[me]->nb_nodes = n;
    tps[me] = calloc(1, sizeof(parsec_taskpool_t));
    tps[me]->context = ctxs[me]; tps[me]->taskpool_id = 7;
    tps[me]->tdm.module = &parsec_termdet_user_trigger_module.module;
    tps[me]->tdm.module->monitor_taskpool(tps[me], cb);
    cb_count[me] = 0;
}
static void rel(int me) {
    tps[me]->tdm.module->unmonitor_taskpool(tps[me]);
    free(tps[me]); free(ctxs[me]);
}

int main(int argc, char **argv) {
    FILE *f = hc_open(argc, argv); char *l;
    PARSEC_OBJ_CONSTRUCT(&parsec_termdet_user_trigger_delayed_messages, parsec_list_t);
    parsec_ce.send_am = rec_send_am;
    while ((l = hc_next(f))) {
        long v[4]; char *p = l + 4; int k = hc_ints(&p, v, 4);
        if (!strncmp(l, "one ", 4) && k == 3) {
            int n = v[0], root = v[1], me = v[2];
            mk(n, me); nsent = 0; cur_rank = me;
            tps[me]->tdm.module->taskpool_ready(tps[me]);
            if (me == root) tps[me]->tdm.module->taskpool_set_nb_tasks(tps[me], 0);
            else {
                parsec_termdet_user_trigger_msg_t m = { 7, root };
                parsec_termdet_user_trigger_msg_dispatch_taskpool(tps[me], &parsec_ce, 0, &m, sizeof(m), 0, NULL);
            }
            printf("children:");
            for (int i = 0; i < nsent; i++) printf(" %d", sent_dst[i]);
            printf(" | cb=%d state=%d\n", cb_count[me], (int)tps[me]->tdm.module->taskpool_state(tps[me]));
            rel(me);
        } else if (!strncmp(l, "sys ", 4) && k == 2) {
            int n = v[0], root = v[1], head = 0; static int recv[MAXN];
            if (n > MAXN) { printf("<too large>\n"); continue; }
            for (int i = 0; i < n; i++) { mk(n, i); recv[i] = 0; tps[i]->tdm.module->taskpool_ready(tps[i]); }
            nsent = 0; cur_rank = root;
            tps[root]->tdm.module->taskpool_set_nb_tasks(tps[root], 0);
            while (head < nsent && nsent < 2*MAXN) {
                int d = sent_dst[head]; parsec_termdet_user_trigger_msg_t m = { 7, sent_root[head] }; head++;
                if (d < 0 || d >= n) { recv[0] += 1000; continue; }
                recv[d]++; cur_rank = d;
                if (tps[d]->tdm.module->taskpool_state(tps[d]) == PARSEC_TERM_TP_TERMINATED) continue; /* duplicate */
                parsec_termdet_user_trigger_msg_dispatch_taskpool(tps[d], &parsec_ce, 0, &m, sizeof(m), sent_src[head-1], NULL);
            }
            printf("recv:");
            for (int i = 0; i < n; i++) printf(" %d", recv[i]);
            printf(" | cb:");
            for (int i = 0; i < n; i++) printf(" %d", cb_count[i]);
            printf("\n");
            for (int i = 0; i < n; i++) rel(i);
        } else printf("<bad case>\n");
    }
    return 0;
}
