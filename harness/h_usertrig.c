/* C12 harness: drives the real user-trigger termination module.  The module
 * source is included so that its static functions are reachable; the comm
 * engine's send_am is replaced by a recorder.
 * case "one n root me"  -> destinations of the notifications of process me
 * case "sys n root"     -> n simulated processes in this address space; the
 *                          recorded messages are delivered FIFO; prints how many
 *                          notifications each rank received and callback counts */
/* case "arr ini n root me s0 s1 …" -> the arrival protocol of one process under a controlled schedule:
 *                          thread 0 (communication thread) runs the PUBLIC entry
 *                          parsec_termdet_user_trigger_msg_dispatch for the one notification, thread 1
 *                          (main thread) registers the taskpool (ini = 0) and makes it ready (ini <= 1);
 *                          scheduling points: before each taskpool lookup, before each lock attempt on the
 *                          delayed-message list (a failed attempt is a stutter step), before each unlock.
 *                          parsec_taskpool_lookup is replaced by a one-entry table (C37 is about the real one). */
#include "parsec/parsec_config.h"
#include "parsec/parsec_internal.h"
#include "parsec/include/parsec/execution_stream.h"
#include "parsec/utils/debug.h"
#include "parsec/mca/termdet/termdet.h"
#include "parsec/mca/termdet/user_trigger/termdet_user_trigger.h"
#include "parsec/remote_dep.h"
#include "parsec/class/list.h"
#include "cosched.h"
static parsec_taskpool_t *h_registered;
static parsec_taskpool_t *h_lookup(uint32_t id) {
    cos_yield();
    return (h_registered != NULL && h_registered->taskpool_id == id) ? h_registered : NULL;
}
static void h_list_lock(parsec_list_t *l) { cos_yield(); while (!parsec_atomic_trylock(&l->atomic_lock)) cos_spin(); }
static void h_list_unlock(parsec_list_t *l) { cos_yield(); parsec_atomic_unlock(&l->atomic_lock); }
#define parsec_taskpool_lookup(id) h_lookup(id)
#define parsec_list_lock(l) h_list_lock(l)
#define parsec_list_unlock(l) h_list_unlock(l)
#include "parsec/mca/termdet/user_trigger/termdet_user_trigger_module.c"
#undef parsec_taskpool_lookup
#undef parsec_list_lock
#undef parsec_list_unlock
#include "hcommon.h"

#define MAXN 5000
static int cur_rank;                    /* process whose code is running */
static int nsent, sent_dst[2*MAXN + 8], sent_src[2*MAXN + 8], sent_root[2*MAXN+8];
static int cb_count[MAXN];
static parsec_taskpool_t *tps[MAXN];
static parsec_context_t *ctxs[MAXN];

static int rec_send_am(parsec_comm_engine_t *ce, parsec_ce_tag_t tag, int dst, void *addr, size_t size) {
    parsec_termdet_user_trigger_msg_t *m = (parsec_termdet_user_trigger_msg_t *)addr;
    (void)ce; (void)tag; (void)size;
    sent_src[nsent] = cur_rank; sent_dst[nsent] = dst; sent_root[nsent] = m->root; nsent++;
    return 0;
}
static void cb(parsec_taskpool_t *tp) { cb_count[tp->context->my_rank]++; }

static void mk(int n, int me) {
    ctxs[me] = calloc(1, sizeof(parsec_context_t) + 64);
    ctxs[me]->my_rank = me; ctxs[me]->nb_nodes = n;
    tps[me] = calloc(1, sizeof(parsec_taskpool_t));
    tps[me]->context = ctxs[me]; tps[me]->taskpool_id = 7;
    tps[me]->tdm.module = &parsec_termdet_user_trigger_module.module;
    tps[me]->tdm.module->monitor_taskpool(tps[me], cb);
    cb_count[me] = 0;
}
static void rel(int me) {
    tps[me]->tdm.module->unmonitor_taskpool(tps[me]);
    free(tps[me]); free(ctxs[me]);
}

static int arr_ini, arr_me, arr_root;
static void arr_comm(void *a) {
    parsec_termdet_user_trigger_msg_t m = { 7, arr_root };
    (void)a; cur_rank = arr_me;
    parsec_termdet_user_trigger_msg_dispatch(&parsec_ce, PARSEC_TERMDET_USER_TRIGGER_MSG_TAG, &m, sizeof(m), 0, NULL);
}
static void arr_main(void *a) {
    (void)a;
    if (arr_ini == 0) { cos_yield(); h_registered = tps[arr_me]; }
    cos_yield();
    tps[arr_me]->tdm.module->taskpool_ready(tps[arr_me]);
}

int main(int argc, char **argv) {
    FILE *f = hc_open(argc, argv); char *l;
    PARSEC_OBJ_CONSTRUCT(&parsec_termdet_user_trigger_delayed_messages, parsec_list_t);
    parsec_ce.send_am = rec_send_am;
    while ((l = hc_next(f))) {
        long v[4]; char *p = l + 4; int k = hc_ints(&p, v, 4);
        if (!strncmp(l, "one ", 4) && k == 3) {
            int n = v[0], root = v[1], me = v[2];
            mk(n, me); nsent = 0; cur_rank = me;
            tps[me]->tdm.module->taskpool_ready(tps[me]);
            if (me == root) tps[me]->tdm.module->taskpool_set_nb_tasks(tps[me], 0);
            else {
                parsec_termdet_user_trigger_msg_t m = { 7, root };
                parsec_termdet_user_trigger_msg_dispatch_taskpool(tps[me], &parsec_ce, 0, &m, sizeof(m), 0, NULL);
            }
            printf("children:");
            for (int i = 0; i < nsent; i++) printf(" %d", sent_dst[i]);
            printf(" | cb=%d state=%d\n", cb_count[me], (int)tps[me]->tdm.module->taskpool_state(tps[me]));
            rel(me);
        } else if (!strncmp(l, "sys ", 4) && k == 2) {
            int n = v[0], root = v[1], head = 0; static int recv[MAXN];
            if (n > MAXN) { printf("<too large>\n"); continue; }
            for (int i = 0; i < n; i++) { mk(n, i); recv[i] = 0; tps[i]->tdm.module->taskpool_ready(tps[i]); }
            nsent = 0; cur_rank = root;
            tps[root]->tdm.module->taskpool_set_nb_tasks(tps[root], 0);
            while (head < nsent && nsent < 2*MAXN) {
                int d = sent_dst[head]; parsec_termdet_user_trigger_msg_t m = { 7, sent_root[head] }; head++;
                if (d < 0 || d >= n) { recv[0] += 1000; continue; }
                recv[d]++; cur_rank = d;
                if (tps[d]->tdm.module->taskpool_state(tps[d]) == PARSEC_TERM_TP_TERMINATED) continue; /* duplicate */
                parsec_termdet_user_trigger_msg_dispatch_taskpool(tps[d], &parsec_ce, 0, &m, sizeof(m), sent_src[head-1], NULL);
            }
            printf("recv:");
            for (int i = 0; i < n; i++) printf(" %d", recv[i]);
            printf(" | cb:");
            for (int i = 0; i < n; i++) printf(" %d", cb_count[i]);
            printf("\n");
            for (int i = 0; i < n; i++) rel(i);
        } else if (!strncmp(l, "arr ", 4)) {
            static long w[4096]; char *q = l + 4; int nw = hc_ints(&q, w, 4096);
            if (nw < 4 || w[1] < 1 || w[1] > MAXN || w[3] < 0 || w[3] >= w[1]) { printf("<bad case>\n"); continue; }
            int n = w[1]; arr_ini = w[0]; arr_root = w[2]; arr_me = w[3];
            mk(n, arr_me); nsent = 0; cur_rank = arr_me; h_registered = NULL;
            if (arr_ini >= 1) h_registered = tps[arr_me];
            if (arr_ini >= 2) tps[arr_me]->tdm.module->taskpool_ready(tps[arr_me]);
            cos_reset();
            cos_spawn(arr_comm, NULL);
            if (arr_ini <= 1) cos_spawn(arr_main, NULL);
            int stuck = cos_run(w + 4, nw - 4, 1000);
            int parked = 0;
            for (parsec_list_item_t *it = PARSEC_LIST_ITERATOR_FIRST(&parsec_termdet_user_trigger_delayed_messages);
                 it != PARSEC_LIST_ITERATOR_END(&parsec_termdet_user_trigger_delayed_messages); it = PARSEC_LIST_ITEM_NEXT(it)) parked++;
            int lockfree = parsec_atomic_trylock(&parsec_termdet_user_trigger_delayed_messages.atomic_lock);
            if (lockfree) parsec_atomic_unlock(&parsec_termdet_user_trigger_delayed_messages.atomic_lock);
            printf("done=%d cb=%d parked=%d lockfree=%d state=%d steps=%d,%d children:", !stuck, cb_count[arr_me], parked, lockfree,
                   (int)tps[arr_me]->tdm.module->taskpool_state(tps[arr_me]), cos_steps[0], cos_n > 1 ? cos_steps[1] : 0);
            for (int i = 0; i < nsent; i++) printf(" %d", sent_dst[i]);
            printf("\n");
            /* leave the module's global list empty and unlocked for the next case */
            while (parsec_list_nolock_pop_front(&parsec_termdet_user_trigger_delayed_messages)) ;
            parsec_atomic_lock_init(&parsec_termdet_user_trigger_delayed_messages.atomic_lock);
            if (tps[arr_me]->tdm.module->taskpool_state(tps[arr_me]) == PARSEC_TERM_TP_TERMINATED) rel(arr_me);
        } else if (!strncmp(l, "ops ", 4)) {
            /* "ops n root me op op …": the module's interface calls of ONE process in sequence:
             * R ready, T trigger (set_nb_tasks(0) on the root, the notification's dispatch elsewhere),
             * aN addto_runtime_actions(N), sN set_runtime_actions(N), nN set_nb_tasks(N), tN addto_nb_tasks(N) */
            char *q = l + 4, *e; long n = strtol(q, &e, 10); q = e; long root = strtol(q, &e, 10); q = e; long me = strtol(q, &e, 10); q = e;
            if (n < 1 || n > MAXN || me < 0 || me >= n || root < 0 || root >= n) { printf("<bad case>\n"); continue; }
            mk((int)n, (int)me); nsent = 0; cur_rank = (int)me;
            const parsec_termdet_base_module_t *mod = tps[me]->tdm.module;
            for (char *tok = strtok(q, " "); tok; tok = strtok(NULL, " ")) {
                long a = tok[1] ? strtol(tok + 1, NULL, 10) : 0;
                switch (tok[0]) {
                case 'R': mod->taskpool_ready(tps[me]); break;
                case 'T': if (me == root) mod->taskpool_set_nb_tasks(tps[me], 0);
                          else { parsec_termdet_user_trigger_msg_t m = { 7, (int)root };
                                 parsec_termdet_user_trigger_msg_dispatch_taskpool(tps[me], &parsec_ce, 0, &m, sizeof(m), 0, NULL); }
                          break;
                case 'a': mod->taskpool_addto_runtime_actions(tps[me], (int)a); break;
                case 's': mod->taskpool_set_runtime_actions(tps[me], (int)a); break;
                case 'n': mod->taskpool_set_nb_tasks(tps[me], (int)a); break;
                case 't': mod->taskpool_addto_nb_tasks(tps[me], (int)a); break;
                default: break;
                }
            }
            printf("sig=%d sent=%d state=%d pa=%d\n", cb_count[me], nsent, (int)mod->taskpool_state(tps[me]), (int)tps[me]->nb_pending_actions);
            free(tps[me]->tdm.monitor); free(tps[me]); free(ctxs[me]);
        } else printf("<bad case>\n");
    }
    return 0;
}
