/* C11 harness: N simulated processes run the real four-counter termination
 * module in one address space (single thread, deterministic).  The module's
 * source is included so that its monitor structure is visible; the comm
 * engine's send_am is replaced by an enqueue into a simulated network, and
 * control messages are handed to the module's public dispatch entry
 * (parsec_termdet_fourcounter_msg_dispatch, including its delayed-message
 * path) when the schedule says so.  Rank i uses taskpool id i+1 so that the
 * global taskpool table and the global delayed list tell the ranks apart; the
 * id inside a message is rewritten to the destination's id on delivery.
 *
 * case:  N | tok tok ... | f-or-minus      (see ocaml/d_term4c.ml for the tokens)
 * output: one token per step (public state of every rank : application
 * messages in flight or being received : ranks with work), then the monitors. */
#include "parsec/mca/termdet/fourcounter/termdet_fourcounter_module.c"
#include "hcommon.h"

#define MAXN 64
#define MAXNET 4096
typedef struct { int src, dst; size_t sz; unsigned char b[PARSEC_TERMDET_FOURCOUNTER_MAX_MSG_SIZE]; } pk_t;
static pk_t net[MAXNET];
static int nnet, overflow;
static int N, cur_rank;
static int cb_count[MAXN], infl[MAXN], inproc[MAXN];
static parsec_taskpool_t *tps[MAXN];
static parsec_context_t *ctxs[MAXN];

static int sim_send_am(parsec_comm_engine_t *ce, parsec_ce_tag_t tag, int dst, void *addr, size_t size) {
    (void)ce; (void)tag;
    if (nnet >= MAXNET || size > sizeof(net[0].b)) { overflow = 1; return 0; }
    net[nnet].src = cur_rank; net[nnet].dst = dst; net[nnet].sz = size;
    memcpy(net[nnet].b, addr, size); nnet++;
    return 0;
}
static void cb(parsec_taskpool_t *tp) { cb_count[tp->context->my_rank]++; }
#define MOD(i) (tps[i]->tdm.module)
#define MON(i) ((parsec_termdet_fourcounter_monitor_t *)tps[i]->tdm.monitor)
static int pub(int i) { return (int)MOD(i)->taskpool_state(tps[i]); }

static void setup(int n) {
    N = n; nnet = 0; overflow = 0;
    for (int i = 0; i < n; i++) {
        ctxs[i]->my_rank = i; ctxs[i]->nb_nodes = n;
        tps[i]->context = ctxs[i];
        tps[i]->tdm.module = (parsec_termdet_base_module_t *)&parsec_termdet_fourcounter_module.module;
        MOD(i)->monitor_taskpool(tps[i], cb);
        cb_count[i] = infl[i] = inproc[i] = 0;
    }
}
static void teardown(void) {
    parsec_list_item_t *it;
    for (int i = 0; i < N; i++) MOD(i)->unmonitor_taskpool(tps[i]);
    while (NULL != (it = parsec_list_nolock_pop_front(&parsec_termdet_fourcounter_delayed_messages))) free(it);
}
static int ndelayed(void) {
    int k = 0;
    parsec_list_t *l = &parsec_termdet_fourcounter_delayed_messages;
    for (parsec_list_item_t *it = PARSEC_LIST_ITERATOR_FIRST(l); it != PARSEC_LIST_ITERATOR_END(l); it = PARSEC_LIST_ITEM_NEXT(it)) k++;
    return k;
}

/* one schedule choice; a choice that is not enabled does nothing */
static void act(char k, long a, long b) {
    int i = (int)a, j = (int)b, s;
    if (a < 0 || a >= N) return;
    cur_rank = i;
    switch (k) {
    case 'r': if (pub(i) == PARSEC_TERM_TP_NOT_READY) MOD(i)->taskpool_ready(tps[i]); break;
    case 't': s = pub(i);
        if ((s == PARSEC_TERM_TP_NOT_READY || s == PARSEC_TERM_TP_BUSY || inproc[i] > 0) && (long)tps[i]->nb_tasks + b >= 0)
            MOD(i)->taskpool_addto_nb_tasks(tps[i], (int)b);
        break;
    case 'a': s = pub(i);
        if ((s == PARSEC_TERM_TP_NOT_READY || s == PARSEC_TERM_TP_BUSY || inproc[i] > 0) && (long)tps[i]->nb_pending_actions + b >= 0)
            MOD(i)->taskpool_addto_runtime_actions(tps[i], (int)b);
        break;
    case 'T': s = pub(i);
        if ((s == PARSEC_TERM_TP_NOT_READY || s == PARSEC_TERM_TP_BUSY || inproc[i] > 0) && b >= 0) MOD(i)->taskpool_set_nb_tasks(tps[i], (int)b);
        break;
    case 'A': s = pub(i);
        if ((s == PARSEC_TERM_TP_NOT_READY || s == PARSEC_TERM_TP_BUSY || inproc[i] > 0) && b >= 0) MOD(i)->taskpool_set_runtime_actions(tps[i], (int)b);
        break;
    case 's':
        if (b >= 0 && b < N && j != i && pub(i) == PARSEC_TERM_TP_BUSY) {
            if (MOD(i)->outgoing_message_start(tps[i], j, NULL)) {
                int pos = 0;
                MOD(i)->outgoing_message_pack(tps[i], j, NULL, &pos, 0);
                infl[j]++;
            }
        }
        break;
    case 'b': s = pub(i);
        if (infl[i] > 0 && (s == PARSEC_TERM_TP_BUSY || s == PARSEC_TERM_TP_IDLE)) {
            int pos = 0;
            infl[i]--; inproc[i]++;
            MOD(i)->incoming_message_start(tps[i], 0, NULL, &pos, 0, NULL);
        }
        break;
    case 'e':
        if (inproc[i] > 0) { MOD(i)->incoming_message_end(tps[i], NULL); inproc[i]--; }
        break;
    case 'd':
        if (b < 0 || b >= N) break;
        for (int q = 0; q < nnet; q++) if (net[q].src == i && net[q].dst == j) {
            pk_t m = net[q];
            memmove(&net[q], &net[q+1], (size_t)(nnet - q - 1) * sizeof(pk_t)); nnet--;
            ((parsec_termdet_fourcounter_msg_down_t *)m.b)->tp_id = tps[j]->taskpool_id;
            cur_rank = j;
            parsec_termdet_fourcounter_msg_dispatch(&parsec_ce, PARSEC_TERMDET_FOURCOUNTER_MSG_TAG, m.b, m.sz, i, NULL);
            break;
        }
        break;
    default: break;
    }
}

static void token(void) {
    int f = 0, w = 0;
    for (int i = 0; i < N; i++) {
        printf("%d", pub(i));
        f += infl[i] + inproc[i];
        if (tps[i]->nb_tasks != 0 || tps[i]->nb_pending_actions != 0) w++;
    }
    printf(":%d:%d", f, w);
}
static void detail(void) {
    for (int i = 0; i < N; i++) {
        parsec_termdet_fourcounter_monitor_t *m = MON(i);
        printf("%s%d %d %d %d %d %d %d %d %d %d %d %d %d", i ? ";" : "", (int)m->state, (int)tps[i]->nb_tasks,
               (int)tps[i]->nb_pending_actions, (int)m->messages_sent, (int)m->messages_received, (int)m->nb_child_left,
               (int)m->acc_sent, (int)m->acc_received, (int)m->last_acc_sent_at_root, (int)m->last_acc_received_at_root,
               cb_count[i], infl[i], inproc[i]);
    }
    printf(" n=%d q=%d", nnet, ndelayed());
}

/* the epilogue of the model (settle1 / drain / finish in Term4CDefs.v) */
static void settle1(int i) {
    int k;
    act('r', i, 0);
    k = infl[i];   for (int x = 0; x < k; x++) { act('b', i, 0); act('e', i, 0); }
    k = inproc[i]; for (int x = 0; x < k; x++) act('e', i, 0);
    act('T', i, 0); act('A', i, 0);
    if (pub(i) == PARSEC_TERM_TP_BUSY) { act('a', i, 1); act('a', i, -1); }
}
static void finish_round(void) {
    for (int i = 0; i < N; i++) settle1(i);
    for (int fuel = 16 * N + 16; fuel > 0 && nnet > 0; fuel--) act('d', net[0].src, net[0].dst);
}

int main(int argc, char **argv) {
    FILE *f = hc_open(argc, argv); char *l;
    PARSEC_OBJ_CONSTRUCT(&parsec_termdet_fourcounter_delayed_messages, parsec_list_t);
    parsec_ce.send_am = sim_send_am;
    for (int i = 0; i < MAXN; i++) {
        ctxs[i] = calloc(1, sizeof(parsec_context_t) + 64);
        tps[i] = calloc(1, sizeof(parsec_taskpool_t));
        parsec_taskpool_reserve_id(tps[i]);
        parsec_taskpool_register(tps[i]);
    }
    while ((l = hc_next(f))) {
        char *bar1 = strchr(l, '|'), *bar2 = bar1 ? strchr(bar1 + 1, '|') : NULL;
        int n = atoi(l);
        if (!bar1 || !bar2 || n < 1 || n > MAXN) { printf("<bad case>\n"); continue; }
        *bar2 = 0;
        int fin = (strchr(bar2 + 1, 'f') != NULL);
        setup(n);
        for (char *w = strtok(bar1 + 1, " "); w; w = strtok(NULL, " ")) {
            char *e; long a = strtol(w + 1, &e, 10), b = 0;
            if (*e == ':') b = strtol(e + 1, NULL, 10);
            act(w[0], a, b);
            token(); printf(" ");
        }
        printf("| END "); detail();
        if (fin) {
            finish_round(); finish_round();
            printf(" | FIN "); token(); printf(" "); detail();
        }
        if (overflow) printf(" <network overflow>");
        printf("\n");
        teardown();
    }
    return 0;
}
