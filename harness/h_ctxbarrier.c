/* C06 T-sched harness: the real choreography of parsec/scheduling.c — parsec_context_start,
 * parsec_context_add_taskpool, parsec_context_wait / __parsec_context_wait (work loop, both barriers, the
 * workers' way back to the start barrier), parsec_taskpool_termination_detected — run by n coroutines
 * (thread 0 = master, 1..n-1 = workers) on a hand-made context, under the schedule of the case.
 *
 * scheduling.c is compiled into this translation unit with
 *   - parsec_barrier_wait replaced by a counter + generation barrier whose waiters spin through cos_spin()
 *     (a thread yields BEFORE arriving only where the model has a separate step: the master in
 *     parsec_context_start and a worker on its way back to the start barrier),
 *   - a yield before every parsec_atomic_fetch_inc/dec_int32 (the updates of active_taskpools),
 *   - a scheduler module whose select() is the harness: it yields, takes a work item by a fixed rule
 *     (lowest taskpool with an untaken startup item, else lowest idle task of the lowest available
 *     taskpool), yields inside it, finishes it, and calls parsec_taskpool_termination_detected when the
 *     taskpool has nothing left; it returns NULL (the task machinery itself is C01/C08 territory).
 * One step of a thread = the code between two yields; ocaml/d_ctxbarrier.ml performs, for every step,
 * the events of the refined model (CtxBarrierDefs.rstep) that this code stands for, under the same schedule.
 *
 * case:  bar <n> | <sizes of the PTG taskpools> | <master program: A<q> S W ...> | <schedule: thread ids>
 * out :  steps=<per thread> ep=<returns of parsec_context_wait> ok=<per return: 1 = active 0, nobody inside an item,
 *        every added taskpool finished> ran=<items finished per taskpool> tr=<hash of (active, generation, arrived)
 *        after every step> [deadlock]
 */
#include "cosched.h"
#include "parsec/parsec_config.h"
#include "parsec/sys/atomic.h"
#include "parsec/class/barrier.h"
#include <time.h>
static int hb_wait(void *b);
#undef parsec_barrier_wait
#define parsec_barrier_wait(b) hb_wait(b)
#define parsec_atomic_fetch_inc_int32(l) (cos_yield(), parsec_atomic_fetch_inc_int32(l))
#define parsec_atomic_fetch_dec_int32(l) (cos_yield(), parsec_atomic_fetch_dec_int32(l))
#define nanosleep(a, b) (0)
#include "parsec/scheduling.c"
#include "hcommon.h"

#define MAXP 8
#define MAXI 16
#define MAXOPS 64
#define MAXS 4096

/* ---- the barrier ---- */
static int hb_gen, hb_cnt, hb_n;
static int hb_yield_first[COS_MAX], hb_calls[COS_MAX];
static int hb_wait(void *b) {
    int t = cos_self(); (void)b;
    int call = hb_calls[t]++;
    if (hb_yield_first[t]) { hb_yield_first[t] = 0; cos_yield(); }
    if (++hb_cnt == hb_n) { hb_cnt = 0; hb_gen++; }
    else { int g = hb_gen; while (hb_gen == g) cos_spin(); }
    /* a worker's calls: 0 = the barrier of parsec_init, then start, end, start, end, ...: after an end barrier
     * the next arrival (start) is a step of its own */
    if (t != 0 && call >= 2 && (call % 2) == 0) hb_yield_first[t] = 1;
    return 0;
}

/* ---- the work ---- */
typedef struct { parsec_taskpool_t *tp; int size, added, su /* 0 none 1 taken 2 done */, st[MAXI], remaining, ran; } hpool_t;
static hpool_t P[MAXP]; static int np;
static int inside[COS_MAX];

static parsec_task_t *my_select(parsec_execution_stream_t *es, int32_t *distance) {
    int t = es->th_id; (void)distance;
    cos_yield();                                                          /* Y_sel */
    int q = -1, i = -1;
    for (int k = 0; k < np && q < 0; k++) if (P[k].added && P[k].su == 0) { q = k; i = -1; }
    for (int k = 0; k < np && q < 0; k++) if (P[k].added && P[k].su >= 1)
        for (int j = 0; j < P[k].size; j++) if (P[k].st[j] == 0) { q = k; i = j; break; }
    if (q < 0) return NULL;
    if (i < 0) P[q].su = 1; else P[q].st[i] = 1;
    inside[t]++;
    cos_yield();                                                          /* Y_work */
    if (i < 0) P[q].su = 2; else P[q].st[i] = 2;
    P[q].ran++;
    inside[t]--;
    if (0 == --P[q].remaining) { inside[t]++; parsec_taskpool_termination_detected(P[q].tp); inside[t]--; }   /* Y_dec inside */
    return NULL;
}
static parsec_sched_module_t my_sched;

/* ---- the context ---- */
static parsec_context_t *ctx;
static parsec_vp_t *vp;
static parsec_execution_stream_t es[COS_MAX];
static char ops[MAXOPS]; static int opq[MAXOPS], nops;
static int phase, master_done, eps; static char okbuf[64];
static uint64_t trh;

static void worker(void *a) { int t = (int)(intptr_t)a; __parsec_context_wait(&es[t]); }

static void master(void *a) {
    (void)a;
    hb_wait(NULL);                                  /* the barrier of parsec_init */
    while (hb_cnt < hb_n - 1) cos_spin();           /* every worker waits for the first round */
    phase = 1; cos_yield();
    for (int o = 0; o < nops; o++) {
        if (ops[o] == 'A') { parsec_context_add_taskpool(ctx, P[opq[o]].tp); P[opq[o]].added = 1; }
        else if (ops[o] == 'S') { hb_yield_first[0] = 1; if (0 != parsec_context_start(ctx)) hb_yield_first[0] = 0; }
        else if (ops[o] == 'W') {
            int rc = parsec_context_wait(ctx);
            if (rc == 0) {
                int ok = (ctx->active_taskpools == 0);
                for (int t = 0; t < hb_n; t++) if (inside[t]) ok = 0;
                for (int q = 0; q < np; q++) if (P[q].added && P[q].remaining) ok = 0;
                if (eps < 60) okbuf[eps] = ok ? '1' : '0';
                eps++;
            }
        }
    }
    master_done = 1;
    cos_yield();
    ctx->__parsec_internal_finalization_in_progress = 1;     /* parsec_fini: let the workers go */
    ctx->__parsec_internal_finalization_counter++;
    hb_wait(NULL);
}

static void trace(void) {
    uint64_t v = (uint64_t)(uint32_t)ctx->active_taskpools * 1000003ull + (uint64_t)hb_gen * 1009ull + (uint64_t)hb_cnt;
    trh = (trh * 1099511628211ull) ^ (v + 0x9E3779B97F4A7C15ull);
    trh &= 0xFFFFFFFFFFFFull;
}

int main(int argc, char **argv) {
    FILE *f = hc_open(argc, argv); char *line;
    parsec_current_scheduler = &my_sched; my_sched.module.select = my_select;
    while ((line = hc_next(f))) {
        char *p = line; long a[MAXS]; int n;
        if (strncmp(p, "bar ", 4)) { printf("<bad case>\n"); continue; }
        p += 4;
        n = hc_ints(&p, a, 4); if (n < 1 || a[0] < 1 || a[0] > 8) { printf("<bad case>\n"); continue; }
        hb_n = (int)a[0];
        np = hc_ints(&p, a, MAXP);
        memset(P, 0, sizeof P);
        for (int q = 0; q < np; q++) {
            P[q].size = (int)a[q]; P[q].remaining = P[q].size + 1;
            P[q].tp = PARSEC_OBJ_NEW(parsec_taskpool_t); P[q].tp->tdm.module = (void *)8;
        }
        nops = 0;
        while (*p == ' ') p++;
        while (*p && *p != '|') {
            if (*p == ' ') { p++; continue; }
            ops[nops] = *p++; opq[nops] = 0;
            if (ops[nops] == 'A') opq[nops] = (int)strtol(p, &p, 10);
            if (nops < MAXOPS - 1) nops++;
        }
        if (*p == '|') p++;
        int ns = hc_ints(&p, a, MAXS);

        /* a context as parsec_init leaves it, without the threads */
        ctx = calloc(1, sizeof(parsec_context_t) + sizeof(void *));
        vp = calloc(1, sizeof(parsec_vp_t) + COS_MAX * sizeof(void *));
        ctx->nb_nodes = 1; ctx->nb_vp = 1; ctx->virtual_processes[0] = vp;
        ctx->taskpool_list = PARSEC_OBJ_NEW(parsec_list_t);
        vp->parsec_context = ctx; vp->vp_id = 0; vp->nb_cores = hb_n;
        memset(es, 0, sizeof es);
        for (int t = 0; t < hb_n; t++) { es[t].th_id = t; es[t].virtual_process = vp; vp->execution_streams[t] = &es[t]; }
        parsec_set_my_execution_stream(&es[0]);
        hb_gen = hb_cnt = 0; memset(hb_yield_first, 0, sizeof hb_yield_first); memset(hb_calls, 0, sizeof hb_calls);
        memset(inside, 0, sizeof inside); phase = master_done = eps = 0; memset(okbuf, 0, sizeof okbuf); trh = 0;

        cos_reset();
        cos_spawn(master, NULL);
        for (int t = 1; t < hb_n; t++) cos_spawn(worker, (void *)(intptr_t)t);
        long guard = 0;
        while (!phase && guard++ < 100000) for (int t = 0; t < hb_n; t++) cos_step(t);
        for (int t = 0; t < hb_n; t++) cos_steps[t] = 0;
        int dead = 0;
        for (int i = 0; i < ns && !master_done; i++) { int t = (int)a[i]; if (t >= 0 && t < hb_n) { cos_step(t); trace(); } }
        guard = 0;
        while (!master_done) {
            for (int t = 0; t < hb_n && !master_done; t++) { cos_step(t); trace(); }
            if (++guard > 20000) { dead = 1; break; }
        }
        long steps[COS_MAX]; for (int t = 0; t < hb_n; t++) steps[t] = cos_steps[t];
        if (!dead) { guard = 0; while (!cos_all_done() && guard++ < 100000) for (int t = 0; t < hb_n; t++) cos_step(t); }
        printf("steps=");
        for (int t = 0; t < hb_n; t++) printf("%s%ld", t ? "," : "", steps[t]);
        printf(" ep=%d ok=%s ran=", eps, eps ? okbuf : "-");
        for (int q = 0; q < np; q++) printf("%s%d", q ? "," : "", P[q].ran);
        printf(" tr=%llx%s\n", (unsigned long long)trh, dead ? " deadlock" : "");
        fflush(stdout);
    }
    return 0;
}
