/* reshape_driver.c — main program of a generated typed-flow PTG test (property C18).
 *
 * Linked with the C file parsec-ptgpp produced from a JDF written by checks/C18.py
 * (which provides rs_case_new and the rs_case_* constants) and libparsec; started
 * directly (1 rank) or under mpiexec (2..4 ranks).
 *
 *   reshape_driver <cores> <thread_multiple 0|1> <outprefix> [parsec options, e.g. --mca runtime_comm_short_limit 0]
 * rank r writes its block to the file <outprefix>.<r> (mpiexec's forwarding of stdout may interleave
 * the ranks in the middle of a line)
 *
 * What it sets up (modelled on tests/collections/reshape/common.h):
 *   - a one-dimensional collection of rs_case_ntiles tiles of mb x mb elements of
 *     esz bytes, tile idx owned by rank rs_case_owner[idx] % nranks, byte b of tile
 *     idx initialised to (37 idx + 11 b + 5) mod 256; default datatype = FULL;
 *   - five arena/datatypes built by parsec_matrix_adt_define_{rect,lower,upper}:
 *     FULL, LOWER(diag), UPPER(diag), LOWS(no diag), UPPS(no diag);
 *   - every arena allocates through a hook of this file (arena->data_malloc) that
 *     fills the new chunk with 0xEE and never reuses memory (data_free is a no-op,
 *     max_released = 0): the content of a fresh copy is therefore known, and a
 *     pointer identifies one copy for the whole run.
 * What it observes:
 *   - RS_BODY: class, instance, pointer of the copy handed to the body, the shape
 *     name of copy->dtt, the bytes of the whole tile at body entry;
 *   - every datatype conversion: MPI_Sendrecv is interposed through the MPI
 *     profiling interface (this file defines MPI_Sendrecv and calls PMPI_Sendrecv):
 *     source pointer/type/count, destination pointer/type/count;
 *   - the final content of the local tiles of the collection.
 * Output (one block per rank, every line prefixed by "<rank>| ", merged and canonicalised by checks/C18.py):
 *   T <cls> <k> <r> <ptr> <dtt> <hex>  (flow A; U ...: second data flow B)      X <srcptr> <srctype> <srccount> <dstptr> <dsttype> <dstcount>
 *   D <idx> <hex>      N <allocations>     END rc=0
 * pointers are printed as  D<idx>+<off>  (inside tile idx of the collection),
 * a<n>+<off> (inside the n-th arena allocation of this rank) or  ?.
 */
#ifndef _GNU_SOURCE
#define _GNU_SOURCE
#endif
#include <stdio.h>
#include <stdlib.h>
#include <string.h>
#include <stdarg.h>
#include <pthread.h>
#include <mpi.h>
#include "reshape_rt.h"
#include "parsec/runtime.h"
#include "parsec/data_dist/matrix/matrix.h"

static int rs_rank = 0, rs_nranks = 1;
static size_t rs_tile_bytes = 0;
static pthread_mutex_t rs_lock = PTHREAD_MUTEX_INITIALIZER;

/* ------------------------------------------------------------ arenas */
static parsec_arena_datatype_t rs_adts[RS_NTYPES];
static const char *rs_tname[RS_NTYPES] = { "-", "FULL", "LOWER", "UPPER", "LOWS", "UPPS" };
parsec_arena_datatype_t *rs_adt(int s) { return &rs_adts[s]; }

#define RS_MAXALLOC 4096
static struct { char *p; size_t sz; } rs_allocs[RS_MAXALLOC];
static int rs_nalloc = 0;

static void *rs_data_malloc(size_t size) {
    char *p = NULL;
    if (posix_memalign((void **)&p, 64, size)) return NULL;
    memset(p, 0xEE, size);
    pthread_mutex_lock(&rs_lock);
    if (rs_nalloc < RS_MAXALLOC) { rs_allocs[rs_nalloc].p = p; rs_allocs[rs_nalloc].sz = size; rs_nalloc++; }
    pthread_mutex_unlock(&rs_lock);
    return p;
}
static void rs_data_free(void *p) { (void)p; /* never reused: a pointer names one copy */ }

static const char *rs_dtt_name(parsec_datatype_t d) {
    if (d == PARSEC_DATATYPE_NULL) return "NULL";
    if (d == PARSEC_DATATYPE_PACKED) return "PACKED";
    for (int s = 1; s < RS_NTYPES; s++) if (rs_adts[s].opaque_dtt == d) return rs_tname[s];
    return "?";
}

/* ------------------------------------------------------- collection */
typedef struct {
    parsec_data_collection_t super;
    int n;
    parsec_data_t **holders;
    char **mem;             /* NULL for tiles of other ranks */
} rs_dc_t;
static rs_dc_t *rs_dc = NULL;

int rs_rank_of_tile(int idx) { return rs_case_owner[idx] % rs_nranks; }
static int dc_idx(rs_dc_t *d, int k) { if (k < 0 || k >= d->n) { fprintf(stderr, "reshape_driver: tile %d out of range\n", k); abort(); } return k; }
static uint32_t dc_rank_of(parsec_data_collection_t *desc, ...) {
    va_list ap; va_start(ap, desc); int k = va_arg(ap, int); va_end(ap);
    return (uint32_t)rs_rank_of_tile(dc_idx((rs_dc_t *)desc, k));
}
static int32_t dc_vpid_of(parsec_data_collection_t *desc, ...) { (void)desc; return 0; }
static parsec_data_key_t dc_data_key(parsec_data_collection_t *desc, ...) {
    va_list ap; va_start(ap, desc); int k = va_arg(ap, int); va_end(ap);
    return (parsec_data_key_t)dc_idx((rs_dc_t *)desc, k);
}
static uint32_t dc_rank_of_key(parsec_data_collection_t *desc, parsec_data_key_t key) { (void)desc; return (uint32_t)rs_rank_of_tile((int)key); }
static int32_t dc_vpid_of_key(parsec_data_collection_t *desc, parsec_data_key_t key) { (void)desc; (void)key; return 0; }
static parsec_data_t *dc_data_of_key(parsec_data_collection_t *desc, parsec_data_key_t key) {
    rs_dc_t *d = (rs_dc_t *)desc;
    int k = dc_idx(d, (int)key);
    if (NULL == d->mem[k]) { fprintf(stderr, "reshape_driver: data_of(%d) on rank %d which does not own it\n", k, rs_rank); abort(); }
    return parsec_data_create(&d->holders[k], desc, (parsec_data_key_t)k, d->mem[k], rs_tile_bytes, 0);
}
static parsec_data_t *dc_data_of(parsec_data_collection_t *desc, ...) {
    va_list ap; va_start(ap, desc); int k = va_arg(ap, int); va_end(ap);
    return dc_data_of_key(desc, (parsec_data_key_t)k);
}
static rs_dc_t *dc_create(int n) {
    rs_dc_t *d = (rs_dc_t *)calloc(1, sizeof(rs_dc_t));
    parsec_data_collection_init(&d->super, rs_nranks, rs_rank);
    d->n = n;
    d->holders = (parsec_data_t **)calloc(n, sizeof(parsec_data_t *));
    d->mem = (char **)calloc(n, sizeof(char *));
    for (int k = 0; k < n; k++) {
        if (rs_rank_of_tile(k) != rs_rank) continue;
        if (posix_memalign((void **)&d->mem[k], 64, rs_tile_bytes)) abort();
        for (size_t b = 0; b < rs_tile_bytes; b++) d->mem[k][b] = (char)((37 * k + 11 * (int)b + 5) & 0xff);
    }
    d->super.rank_of = dc_rank_of;         d->super.rank_of_key = dc_rank_of_key;
    d->super.vpid_of = dc_vpid_of;         d->super.vpid_of_key = dc_vpid_of_key;
    d->super.data_of = dc_data_of;         d->super.data_of_key = dc_data_of_key;
    d->super.data_key = dc_data_key;
    d->super.default_dtt = rs_adts[RS_T_FULL].opaque_dtt;
    parsec_data_collection_set_key(&d->super, "descA");
    return d;
}

/* ------------------------------------------------------ pointer names */
static void rs_ptr_name(const void *q, char *buf, size_t len) {
    const char *p = (const char *)q;
    if (rs_dc) for (int k = 0; k < rs_dc->n; k++)
        if (rs_dc->mem[k] && p >= rs_dc->mem[k] && p < rs_dc->mem[k] + rs_tile_bytes) { snprintf(buf, len, "D%d+%ld", k, (long)(p - rs_dc->mem[k])); return; }
    for (int i = 0; i < rs_nalloc; i++)
        if (p >= rs_allocs[i].p && p < rs_allocs[i].p + rs_allocs[i].sz) {
            /* offset relative to the start of the tile inside the chunk is not known here: print the chunk number only */
            snprintf(buf, len, "a%d", i); return;
        }
    snprintf(buf, len, "?");
}

/* ---------------------------------------------------------------- log */
#define RS_MAXLOG 8192
typedef struct { char kind; int cls, k, r; char ptr[32]; char dtt[8]; char ptr2[32]; char dtt2[8]; long c1, c2; char *hex; } rs_ent_t;
static rs_ent_t rs_log[RS_MAXLOG];
static int rs_nlog = 0;

static char *rs_hex(const void *p, size_t n) {
    static const char H[] = "0123456789abcdef";
    char *s = (char *)malloc(2 * n + 1);
    for (size_t i = 0; i < n; i++) { unsigned char c = ((const unsigned char *)p)[i]; s[2 * i] = H[c >> 4]; s[2 * i + 1] = H[c & 15]; }
    s[2 * n] = 0;
    return s;
}

static void rs_log_copy(char kind, int cls, int k, int r, parsec_data_copy_t *copy) {
    void *A = copy ? PARSEC_DATA_COPY_GET_PTR(copy) : NULL;
    pthread_mutex_lock(&rs_lock);
    if (rs_nlog >= RS_MAXLOG) { fprintf(stderr, "reshape_driver: log overflow\n"); abort(); }
    rs_ent_t *e = &rs_log[rs_nlog++];
    e->kind = kind; e->cls = cls; e->k = k; e->r = r;
    pthread_mutex_unlock(&rs_lock);
    if (NULL == A) { strcpy(e->ptr, "NULL"); strcpy(e->dtt, "NULL"); e->hex = strdup(""); return; }
    rs_ptr_name(A, e->ptr, sizeof(e->ptr));
    snprintf(e->dtt, sizeof(e->dtt), "%s", rs_dtt_name(copy->dtt));
    e->hex = rs_hex(A, rs_tile_bytes);
}
void rs_body2(parsec_task_t *t, int cls, int k, int r, parsec_data_copy_t *copy, int modify, parsec_data_copy_t *copyb) {
    (void)t;
    rs_log_copy('T', cls, k, r, copy);
    if (copyb != (parsec_data_copy_t *)-1) rs_log_copy('U', cls, k, r, copyb);
    void *A = copy ? PARSEC_DATA_COPY_GET_PTR(copy) : NULL;
    if (modify && A) { unsigned char *B = (unsigned char *)A; for (size_t b = 0; b < rs_tile_bytes; b++) B[b] ^= (unsigned char)(cls + 1); }
}
void rs_body(parsec_task_t *t, int cls, int k, int r, parsec_data_copy_t *copy, int modify) {
    rs_body2(t, cls, k, r, copy, modify, (parsec_data_copy_t *)-1);
}

/* every local datatype conversion of PaRSEC is an MPI_Sendrecv on a private communicator
 * (parsec_mpi_funnelled.c:parsec_mpi_sendrecv): observe it through the profiling interface */
int MPI_Sendrecv(const void *sendbuf, int sendcount, MPI_Datatype sendtype, int dest, int sendtag,
                 void *recvbuf, int recvcount, MPI_Datatype recvtype, int source, int recvtag,
                 MPI_Comm comm, MPI_Status *status) {
    pthread_mutex_lock(&rs_lock);
    if (rs_nlog >= RS_MAXLOG) { fprintf(stderr, "reshape_driver: log overflow\n"); abort(); }
    rs_ent_t *e = &rs_log[rs_nlog++];
    e->kind = 'X';
    pthread_mutex_unlock(&rs_lock);
    rs_ptr_name(sendbuf, e->ptr, sizeof(e->ptr));
    rs_ptr_name(recvbuf, e->ptr2, sizeof(e->ptr2));
    snprintf(e->dtt, sizeof(e->dtt), "%s", rs_dtt_name(sendtype));
    snprintf(e->dtt2, sizeof(e->dtt2), "%s", rs_dtt_name(recvtype));
    e->c1 = sendcount; e->c2 = recvcount;
    return PMPI_Sendrecv(sendbuf, sendcount, sendtype, dest, sendtag, recvbuf, recvcount, recvtype, source, recvtag, comm, status);
}

/* ---------------------------------------------------------------- main */
int main(int argc, char **argv) {
    int provided, cores, mt, rc;
    if (argc < 4) { fprintf(stderr, "usage: reshape_driver cores thread_multiple outprefix [parsec options]\n"); return 2; }
    cores = atoi(argv[1]); mt = atoi(argv[2]);
    const char *outprefix = argv[3];
    MPI_Init_thread(NULL, NULL, mt ? MPI_THREAD_MULTIPLE : MPI_THREAD_SERIALIZED, &provided);
    MPI_Comm_size(MPI_COMM_WORLD, &rs_nranks);
    MPI_Comm_rank(MPI_COMM_WORLD, &rs_rank);

    char *pv[64]; int pc = 0;
    pv[pc++] = "--";
    for (int i = 4; i < argc && pc < 62; i++) pv[pc++] = argv[i];
    pv[pc] = NULL;
    char **pvp = pv;
    parsec_context_t *ctx = parsec_init(cores, &pc, &pvp);
    if (!ctx) { printf("END rc=init-failed\n"); MPI_Finalize(); return 3; }

    int mb = rs_case_mb, esz = rs_case_esz;
    rs_tile_bytes = (size_t)mb * mb * esz;
    parsec_datatype_t elt = (esz == 1) ? parsec_datatype_int8_t : (esz == 4) ? parsec_datatype_int32_t : parsec_datatype_int64_t;
    for (int s = 1; s < RS_NTYPES; s++) PARSEC_OBJ_CONSTRUCT(&rs_adts[s], parsec_arena_datatype_t);
    rc  = parsec_matrix_adt_define_rect(&rs_adts[RS_T_FULL], elt, mb, mb, mb);
    rc |= parsec_matrix_adt_define_lower(&rs_adts[RS_T_LOWER], elt, 1, mb);
    rc |= parsec_matrix_adt_define_upper(&rs_adts[RS_T_UPPER], elt, 1, mb);
    rc |= parsec_matrix_adt_define_lower(&rs_adts[RS_T_LOWS], elt, 0, mb);
    rc |= parsec_matrix_adt_define_upper(&rs_adts[RS_T_UPPS], elt, 0, mb);
    if (rc != 0) { printf("END rc=adt-failed\n"); MPI_Finalize(); return 3; }
    for (int s = 1; s < RS_NTYPES; s++) {
        rs_adts[s].arena->data_malloc = rs_data_malloc;
        rs_adts[s].arena->data_free = rs_data_free;
        rs_adts[s].arena->max_released = 0;
    }

    rs_dc = dc_create(rs_case_ntiles);
    parsec_taskpool_t *tp = rs_case_new(&rs_dc->super);
    if (!tp) { printf("END rc=new-failed\n"); return 3; }
    if (0 != parsec_context_add_taskpool(ctx, tp)) { printf("END rc=add-failed\n"); return 3; }
    if (0 != parsec_context_start(ctx)) { printf("END rc=start-failed\n"); return 3; }
    if (0 != parsec_context_wait(ctx)) { printf("END rc=wait-failed\n"); return 3; }

    /* one block per rank, in its own file; every line carries the rank */
    {
        int R = rs_rank;
        char fn[1024];
        snprintf(fn, sizeof(fn), "%s.%d", outprefix, R);
        FILE *out = fopen(fn, "w");
        if (!out) { perror(fn); return 3; }
        fprintf(out, "%d| RANK %d of %d\n", R, rs_rank, rs_nranks);
        for (int i = 0; i < rs_nlog; i++) {
            rs_ent_t *e = &rs_log[i];
            if (e->kind == 'T' || e->kind == 'U') fprintf(out, "%d| %c %d %d %d %s %s %s\n", R, e->kind, e->cls, e->k, e->r, e->ptr, e->dtt, e->hex);
            else fprintf(out, "%d| X %s %s %ld %s %s %ld\n", R, e->ptr, e->dtt, e->c1, e->ptr2, e->dtt2, e->c2);
        }
        for (int k = 0; k < rs_dc->n; k++) if (rs_dc->mem[k]) { char *h = rs_hex(rs_dc->mem[k], rs_tile_bytes); fprintf(out, "%d| D %d %s\n", R, k, h); free(h); }
        fprintf(out, "%d| N %d\n", R, rs_nalloc);
        fprintf(out, "%d| END rc=0\n", R);
        fclose(out);
    }
    MPI_Barrier(MPI_COMM_WORLD);
    parsec_taskpool_free(tp);
    parsec_fini(&ctx);
    MPI_Finalize();
    return 0;
}
