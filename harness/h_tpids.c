/* C37 harness: the taskpool identifier table of parsec/parsec.c, through the
 * exported functions of libparsec (parsec_taskpool_reserve_id / _register /
 * _unregister / _lookup / _sync_ids).  The table is static in the library and
 * allocated lazily by the first reservation, so no parsec_init is needed; every
 * simulated process of a case is a forked child of this (pristine) process, with
 * its own copy of the table.
 *
 * case "sys <n> : tok tok ..."   n processes; tokens in global order
 *        <r>r<p>  process r: parsec_taskpool_reserve_id(pool p)   -> i<id>
 *        <r>g<p>  process r: parsec_taskpool_register(pool p)     -> g<id>
 *        <r>u<p>  process r: parsec_taskpool_unregister(pool p)   -> u
 *        <r>l<i>  process r: parsec_taskpool_lookup(i)            -> p<k> | - | z (slot 0, not a pool) | ? (unknown pointer)
 *        S        all processes: parsec_taskpool_sync_ids()       -> S
 *        <r>h<p>  process r: a helper thread will reserve and register pool p while the main thread is
 *                 inside the collective of the next S.  The MPI_Allreduce stand-in releases the helper and
 *                 gives it 25 ms (after it has started) to finish.  After the S the process prints
 *                 "H:in" (the helper finished inside the collective: the table was not locked across it) or
 *                 "H:after" (it had to wait for the end of the sync, as with the lock held), then i<id> g<id>
 *                 for every helper pool
 *      prints "r0: ... | r1: ..." ; a process that dies prints CRASH and nothing more.
 *      The collective inside parsec_taskpool_sync_ids_context is MPI_Allreduce(MPI_MAX);
 *      this executable defines MPI_Initialized / MPI_Allreduce itself (they take
 *      precedence over libmpi's for libparsec too): the value goes to the parent over a
 *      pipe, the parent answers with the maximum over the processes still alive.
 * case "conc <T> <K>"   T threads reserve K identifiers each, concurrently
 *      prints "conc n=<count> distinct=<count of distinct ids> min=<m> max=<M>" */
#include "hcommon.h"
#include <mpi.h>
#include <unistd.h>
#include <pthread.h>
#include <time.h>
#include <sys/wait.h>
#include <sys/mman.h>
#include "parsec/runtime.h"
#include "parsec/parsec_internal.h"

#define MAXR 8
#define MAXP 16384
static int up_fd = -1, down_fd = -1;

int MPI_Initialized(int *flag) { *flag = 1; return MPI_SUCCESS; }
/* ---- a second thread of the same process, released in the middle of a sync ---- */
#define MAXH 64
static long hp[MAXH], hid[MAXH], hgid[MAXH]; static int nhp;
static volatile int h_armed, h_go, h_started, h_done, h_inside;
static void msleep_us(long us) { struct timespec ts = { us / 1000000, (us % 1000000) * 1000L }; nanosleep(&ts, NULL); }

int MPI_Allreduce(const void *sbuf, void *rbuf, int count, MPI_Datatype dt, MPI_Op op, MPI_Comm comm)
{
    int v = *(int *)rbuf; (void)sbuf; (void)count; (void)dt; (void)op; (void)comm;
    if (h_armed) {
        h_armed = 0; __sync_synchronize(); h_go = 1;
        for (int i = 0; i < 20000 && !h_started; i++) msleep_us(100);      /* up to 2 s to get scheduled */
        for (int i = 0; i < 250 && !h_done; i++) msleep_us(100);           /* 25 ms to finish */
        h_inside = h_done;
    }
    if (write(up_fd, &v, sizeof v) != sizeof v) _exit(3);
    if (read(down_fd, &v, sizeof v) != sizeof v) _exit(3);
    *(int *)rbuf = v;
    return MPI_SUCCESS;
}

static parsec_taskpool_t *pools[MAXP];
static parsec_taskpool_t *pool(long p)
{
    if (p < 0 || p >= MAXP) _exit(4);
    if (!pools[p]) pools[p] = calloc(1, sizeof(parsec_taskpool_t));
    return pools[p];
}
static void out(int fd, const char *fmt, long v)
{
    char b[64]; int n = snprintf(b, sizeof b, fmt, v);
    if (write(fd, b, n) != n) _exit(5);
}

static parsec_taskpool_t *pool(long p);
static void *helper(void *arg)
{
    (void)arg;
    while (!h_go) msleep_us(50);
    h_started = 1; __sync_synchronize();
    for (int i = 0; i < nhp; i++) {
        hid[i] = parsec_taskpool_reserve_id(pool(hp[i]));
        hgid[i] = parsec_taskpool_register(pool(hp[i]));
    }
    __sync_synchronize(); h_done = 1;
    return NULL;
}

/* one simulated process: walk the token list, do the operations of rank me */
static void child(int me, char *toks, int ofd)
{
    char *sv, *t;
    for (t = strtok_r(toks, " ", &sv); t; t = strtok_r(NULL, " ", &sv)) {
        if (t[0] == 'S') {
            pthread_t th;
            if (nhp > 0) {
                h_go = h_started = h_done = h_inside = 0; __sync_synchronize();
                pthread_create(&th, NULL, helper, NULL); h_armed = 1;
            }
            parsec_taskpool_sync_ids(); out(ofd, " S", 0);
            if (nhp > 0) {
                pthread_join(th, NULL);
                out(ofd, h_inside ? " H:in" : " H:after", 0);
                for (int i = 0; i < nhp; i++) { out(ofd, " i%ld", hid[i]); out(ofd, " g%ld", hgid[i]); }
                nhp = 0;
            }
            continue;
        }
        char *e; long r = strtol(t, &e, 10); char k = *e; long a = strtol(e + 1, NULL, 10);
        if (r != me) continue;
        switch (k) {
        case 'r': out(ofd, " i%ld", parsec_taskpool_reserve_id(pool(a))); break;
        case 'g': out(ofd, " g%ld", parsec_taskpool_register(pool(a))); break;
        case 'u': parsec_taskpool_unregister(pool(a)); out(ofd, " u", 0); break;
        case 'h': (void)pool(a); if (nhp < MAXH) hp[nhp++] = a; break;
        case 'l': {
            parsec_taskpool_t *tp = parsec_taskpool_lookup((uint32_t)a); long k2 = -1;
            for (long i = 0; i < MAXP && tp; i++) if (pools[i] == tp) { k2 = i; break; }
            if (k2 >= 0) out(ofd, " p%ld", k2);
            else if (a == 0) out(ofd, " z", 0);
            else if (!tp) out(ofd, " -", 0);
            else out(ofd, " ?", 0);
            break; }
        default: out(ofd, " <bad token>", 0);
        }
    }
    _exit(0);
}

static void run_sys(char *l)
{
    int n = 0; char *colon = strchr(l, ':');
    if (!colon || sscanf(l + 4, "%d", &n) != 1 || n < 1 || n > MAXR) { printf("<bad case>\n"); return; }
    char *toks = colon + 1;
    int up[MAXR][2], down[MAXR][2], ofd[MAXR]; pid_t pid[MAXR]; int alive[MAXR];
    for (int r = 0; r < n; r++) {
        if (pipe(up[r]) || pipe(down[r])) { perror("pipe"); exit(2); }
        ofd[r] = memfd_create("obs", 0);
        if (ofd[r] < 0) { perror("memfd_create"); exit(2); }
    }
    fflush(stdout);
    for (int r = 0; r < n; r++) {
        pid[r] = fork();
        if (pid[r] < 0) { perror("fork"); exit(2); }
        if (pid[r] == 0) {
            for (int q = 0; q < n; q++) {
                close(up[q][0]); close(down[q][1]);
                if (q != r) { close(up[q][1]); close(down[q][0]); close(ofd[q]); }
            }
            up_fd = up[r][1]; down_fd = down[r][0];
            char *copy = strdup(toks);
            child(r, copy, ofd[r]);
        }
        alive[r] = 1;
    }
    for (int r = 0; r < n; r++) { close(up[r][1]); close(down[r][0]); }
    /* serve the collectives, in the order of the token list */
    for (char *p = toks; *p; p++) {
        if (*p != 'S') continue;
        int v[MAXR], m = 0, any = 0;
        for (int r = 0; r < n; r++) {
            if (!alive[r]) continue;
            if (read(up[r][0], &v[r], sizeof(int)) != sizeof(int)) { alive[r] = 0; continue; }
            if (!any || v[r] > m) m = v[r];
            any = 1;
        }
        for (int r = 0; r < n; r++)
            if (alive[r] && write(down[r][1], &m, sizeof m) != sizeof m) alive[r] = 0;
    }
    for (int r = 0; r < n; r++) {
        int st = 0; waitpid(pid[r], &st, 0);
        close(up[r][0]); close(down[r][1]);
        printf("%sr%d:", r ? " | " : "", r);
        lseek(ofd[r], 0, SEEK_SET);
        char b[4096]; ssize_t k;
        while ((k = read(ofd[r], b, sizeof b)) > 0) fwrite(b, 1, k, stdout);
        close(ofd[r]);
        if (WIFSIGNALED(st)) printf(" CRASH");
        else if (WEXITSTATUS(st) != 0) printf(" <exit %d>", WEXITSTATUS(st));
    }
    printf("\n");
}

/* ---- concurrent reservations ------------------------------------------ */
static pthread_barrier_t bar; static int cK; static int *cids;
static void *cthread(void *arg)
{
    long t = (long)arg;
    pthread_barrier_wait(&bar);
    for (int i = 0; i < cK; i++) {
        parsec_taskpool_t *tp = calloc(1, sizeof(parsec_taskpool_t));
        cids[t * cK + i] = parsec_taskpool_reserve_id(tp);
        if ((int)tp->taskpool_id != cids[t * cK + i]) cids[t * cK + i] = -1;
    }
    return NULL;
}
static int cmpint(const void *a, const void *b) { return (*(int *)a > *(int *)b) - (*(int *)a < *(int *)b); }
static void run_conc(char *l)
{
    int T = 0, K = 0;
    if (sscanf(l + 5, "%d %d", &T, &K) != 2 || T < 1 || T > 64 || K < 1 || K > 100000) { printf("<bad case>\n"); return; }
    fflush(stdout);
    pid_t pid = fork();
    if (pid == 0) {
        pthread_t th[64]; cK = K; cids = calloc((size_t)T * K, sizeof(int));
        pthread_barrier_init(&bar, NULL, T);
        for (long t = 0; t < T; t++) pthread_create(&th[t], NULL, cthread, (void *)t);
        for (int t = 0; t < T; t++) pthread_join(th[t], NULL);
        qsort(cids, (size_t)T * K, sizeof(int), cmpint);
        int d = 1; for (int i = 1; i < T * K; i++) if (cids[i] != cids[i - 1]) d++;
        printf("conc n=%d distinct=%d min=%d max=%d\n", T * K, d, cids[0], cids[T * K - 1]);
        fflush(stdout); _exit(0);
    }
    int st = 0; waitpid(pid, &st, 0);
    if (WIFSIGNALED(st)) printf("conc CRASH\n");
    else if (WEXITSTATUS(st) != 0) printf("conc <exit %d>\n", WEXITSTATUS(st));
}

int main(int argc, char **argv)
{
    FILE *f = hc_open(argc, argv); char *l;
    while ((l = hc_next(f))) {
        if (!strncmp(l, "sys ", 4)) run_sys(l);
        else if (!strncmp(l, "conc ", 5)) run_conc(l);
        else printf("<bad case>\n");
        fflush(stdout);
    }
    return 0;
}
