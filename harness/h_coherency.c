/* C26 harness: drives the real parsec_data_{start,end}_transfer_ownership_to_copy and
 * parsec_data_transfer_ownership_to_copy of libparsec on a real parsec_data_t with n device
 * slots (parsec_nb_devices = n; copies created by parsec_data_copy_new / attached by
 * parsec_data_copy_attach).  No parsec_init: the device registry is frozen empty, then
 * parsec_data_init sizes the parsec_data_t class for MAXDEV device slots.
 * case:  kind | owner | c0 c1 ... | op op ...        (see ocaml/d_coherency.ml)
 * out :  after each op  ret;owner;c0,c1,...   joined by " | "
 * The caller-side operations (version assignment, reader release, transfer status) write the
 * fields the way device_gpu.c / jdf2c.c / the DTD front-end do. */
#include "parsec/parsec_config.h"
#include "parsec/runtime.h"
#include "parsec/data_internal.h"
#include "parsec/mca/device/device.h"
#include "parsec/parsec_description_structures.h"
#include "hcommon.h"

#define MAXDEV 16
static parsec_data_t *data;
static int ndev;
static int lastret[256];

static int st_of(char c) {
    switch (c) {
    case 'I': return PARSEC_DATA_COHERENCY_INVALID;
    case 'O': return PARSEC_DATA_COHERENCY_OWNED;
    case 'E': return PARSEC_DATA_COHERENCY_EXCLUSIVE;
    default:  return PARSEC_DATA_COHERENCY_SHARED;
    }
}
static char st_chr(int s) {
    switch (s) {
    case PARSEC_DATA_COHERENCY_INVALID:   return 'I';
    case PARSEC_DATA_COHERENCY_OWNED:     return 'O';
    case PARSEC_DATA_COHERENCY_EXCLUSIVE: return 'E';
    case PARSEC_DATA_COHERENCY_SHARED:    return 'S';
    default: return '?';
    }
}
static uint8_t mode_of(const char *s) {
    if (!strcmp(s, "R"))  return PARSEC_FLOW_ACCESS_READ;
    if (!strcmp(s, "W"))  return PARSEC_FLOW_ACCESS_WRITE;
    if (!strcmp(s, "RW")) return PARSEC_FLOW_ACCESS_RW;
    return PARSEC_FLOW_ACCESS_NONE;
}
static void snap(const char *ret) {
    printf("%s;%d;", ret, (int)data->owner_device);
    for (int i = 0; i < ndev; i++) {
        parsec_data_copy_t *c = data->device_copies[i];
        if (i) printf(",");
        if (!c) printf("-");
        else printf("%c:%u:%d:%d", st_chr(c->coherency_state), (unsigned)c->version, (int)c->readers,
                    (int)c->data_transfer_status);
    }
}
static void snapi(int r) { char b[32]; snprintf(b, sizeof b, "%d", r); snap(b); }

/* greatest version among the valid copies, dflt when there is none */
static uint32_t max_valid(uint32_t dflt) {
    uint32_t m = dflt;
    for (int i = 0; i < ndev; i++) {
        parsec_data_copy_t *c = data->device_copies[i];
        if (!c || PARSEC_DATA_COHERENCY_INVALID == c->coherency_state) continue;
        if (c->version > m) m = c->version;
    }
    return m;
}
static void pull(int d, int s) {
    if (s >= 0 && s < ndev && data->device_copies[s])
        data->device_copies[d]->version = data->device_copies[s]->version;
}

static void one_op(char *tok) {
    char *f[4] = { 0, 0, 0, 0 }; int nf = 0;
    for (char *p = strtok(tok, "."); p && nf < 4; p = strtok(NULL, ".")) f[nf++] = p;
    char k = f[0][0];
    if (k == 'G') {
        int o = data->owner_device;
        if (o >= 0 && o < ndev && data->device_copies[o]
            && PARSEC_DATA_COHERENCY_OWNED == data->device_copies[o]->coherency_state)
            data->device_copies[o]->version = max_valid(data->device_copies[o]->version) + 1;
        snapi(-1); return;
    }
    if (nf < 2) { printf("<bad op>"); return; }
    int d = atoi(f[1]);
    if (d < 0 || d >= ndev || NULL == data->device_copies[d]) { snap("!null"); return; }
    parsec_data_copy_t *c = data->device_copies[d];
    uint8_t m = f[2] ? mode_of(f[2]) : 0;
    int r = -1;
    switch (k) {
    case 'S': r = lastret[d] = parsec_data_start_transfer_ownership_to_copy(data, (uint8_t)d, m); break;
    case 'E': parsec_data_end_transfer_ownership_to_copy(data, (uint8_t)d, m); break;
    case 'T': r = lastret[d] = parsec_data_transfer_ownership_to_copy(data, (uint8_t)d, m); break;
    case 'V': c->version = (uint32_t)strtoull(f[2], NULL, 10); break;
    case 'I': c->version++; break;
    case 'P': pull(d, lastret[d]); break;
    case 'B': c->version = max_valid(c->version) + 1; break;
    case 'R': (void)parsec_atomic_fetch_dec_int32(&c->readers); break;
    case 'X': c->data_transfer_status = (parsec_data_status_t)atoi(f[2]); break;
    case 'A':   /* one access, in the order of the GPU stage-in: start, version from the source, end, new version */
        r = lastret[d] = parsec_data_start_transfer_ownership_to_copy(data, (uint8_t)d, m);
        if (r >= 0) pull(d, r);
        parsec_data_end_transfer_ownership_to_copy(data, (uint8_t)d, m);
        if (m & PARSEC_FLOW_ACCESS_WRITE) c->version = max_valid(c->version) + 1;
        break;
    case 'a':   /* one access through the locked entry point, as the generated CPU code does */
        r = lastret[d] = parsec_data_transfer_ownership_to_copy(data, (uint8_t)d, m);
        if (r >= 0) pull(d, r);
        if (m & PARSEC_FLOW_ACCESS_WRITE) c->version = max_valid(c->version) + 1;
        break;
    default: printf("<bad op>"); return;
    }
    snapi(r);
}

int main(int argc, char **argv) {
    FILE *f = hc_open(argc, argv); char *l;
    /* freeze the (empty) device registry, then size parsec_data_t for MAXDEV device slots */
    parsec_nb_devices = 0;
    parsec_mca_device_registration_complete(NULL);
    parsec_nb_devices = MAXDEV;
    if (PARSEC_SUCCESS != parsec_data_init(NULL)) { fprintf(stderr, "parsec_data_init failed\n"); return 3; }
    while ((l = hc_next(f))) {
        char *fld[4]; int nfld = 0;
        for (char *p = l; nfld < 4; ) {
            fld[nfld++] = p;
            char *q = strchr(p, '|');
            if (!q) break;
            *q = 0; p = q + 1;
        }
        if (nfld != 4) { printf("<bad case>\n"); continue; }
        /* copies */
        char *toks[MAXDEV]; ndev = 0;
        for (char *p = strtok(fld[2], " "); p && ndev < MAXDEV; p = strtok(NULL, " ")) toks[ndev++] = p;
        parsec_nb_devices = ndev;
        data = parsec_data_new();
        for (int i = 0; i < ndev; i++) {
            lastret[i] = -1;
            if (toks[i][0] == '-') continue;
            parsec_data_copy_t *c = parsec_data_copy_new(data, (uint8_t)i, PARSEC_DATATYPE_NULL, 0);
            unsigned long v; int rd, x;
            sscanf(toks[i] + 2, "%lu:%d:%d", &v, &rd, &x);
            c->coherency_state = st_of(toks[i][0]);
            c->version = (uint32_t)v; c->readers = rd; c->data_transfer_status = (parsec_data_status_t)x;
        }
        data->owner_device = (int8_t)atoi(fld[1]);
        /* ops (strtok state is reused inside one_op: split first) */
        static char *ops[4096]; int nops = 0;
        for (char *p = strtok(fld[3], " "); p && nops < 4096; p = strtok(NULL, " ")) ops[nops++] = p;
        for (int i = 0; i < nops; i++) {
            if (i) printf(" | ");
            one_op(ops[i]);
        }
        printf("\n");
        /* tear down: detach and release the copies, then the datum */
        for (int i = 0; i < ndev; i++) {
            parsec_data_copy_t *c = data->device_copies[i];
            if (!c) continue;
            c->readers = 0;
            parsec_data_copy_detach(data, c, (uint8_t)i);
            PARSEC_OBJ_RELEASE(c);
        }
        parsec_nb_devices = 0;
        PARSEC_OBJ_RELEASE(data);
    }
    return 0;
}
